import ArroyProofs.StoreOk
import ArroyProofs.NormalLenBuild
/-! The generic form of `ArroyProofs/NormalLenBuild.lean`: `Writer::build` keeps "every entry of the store
satisfies `Q` and every normal left in the oracle satisfies `P`" (`QInv`), helper by helper, for every
pair of predicates with `BuildQ c P Q`. The generic combinators of `Tr` (`pure`, `fail`, `bind`, `weaken`,
`ite`, `forEach`) are those of `NormalLenBuild.lean`; the lemmas specialised to the invariant are redone
here in the namespace `TrQ`, and the lemmas on the helpers of the build carry the suffix `_qok`. -/
namespace Arroy
open Generated BuildM

/-- the invariant of the build state: every store entry satisfies `Q`, every oracle normal satisfies `P` -/
def QInv (P : List Nat → Prop) (Q : Key → Val → Prop) (st : BState) : Prop :=
  StoreOk Q st.store ∧ ∀ n ∈ st.normals, P n

namespace TrQ
variable {α β : Type} {P : List Nat → Prop} {Q : Key → Val → Prop}

/-- a computation that leaves the store and the oracle's normals alone -/
theorem of_same {m : BuildM α}
    (h : ∀ st a st', m st = .ok (a, st') → st'.store = st.store ∧ st'.normals = st.normals) :
    Tr (QInv P Q) m (fun _ => True) := by
  intro st a st' hI e
  obtain ⟨h1, h2⟩ := h _ _ _ e
  exact ⟨by unfold QInv; rw [h1, h2]; exact hI, trivial⟩

theorem poll : Tr (QInv P Q) BuildM.poll (fun _ => True) := by
  apply of_same
  intro st b st' h
  unfold BuildM.poll at h
  split at h
  · split at h
    · simp at h
    · simp only [Except.ok.injEq, Prod.mk.injEq] at h; rw [← h.2]; exact ⟨rfl, rfl⟩
  · simp only [Except.ok.injEq, Prod.mk.injEq] at h; rw [← h.2]; exact ⟨rfl, rfl⟩

theorem pollN (k : Nat) : Tr (QInv P Q) (BuildM.pollN k) (fun _ => True) := by
  induction k with
  | zero => exact Tr.pure () trivial
  | succ k ih => exact Tr.bind' poll (fun _ _ => ih)

theorem nextBatch : Tr (QInv P Q) BuildM.nextBatch (fun _ => True) := by
  apply of_same
  intro st b st' h
  unfold BuildM.nextBatch at h
  split at h
  · simp at h
  · simp only [Except.ok.injEq, Prod.mk.injEq] at h; rw [← h.2]; exact ⟨rfl, rfl⟩

theorem getStore : Tr (QInv P Q) BuildM.getStore (fun s => StoreOk Q s) := by
  intro st a st' hI h
  simp only [BuildM.getStore, Except.ok.injEq, Prod.mk.injEq] at h
  obtain ⟨rfl, rfl⟩ := h
  exact ⟨hI, hI.1⟩

theorem peek : Tr (QInv P Q) (fun s => .ok (s, s) : BuildM BState) (fun st => QInv P Q st) := by
  intro st a st' hI h
  simp only [Except.ok.injEq, Prod.mk.injEq] at h
  obtain ⟨rfl, rfl⟩ := h
  exact ⟨hI, hI⟩

theorem liftExcept (x : Except Err α) : Tr (QInv P Q) (BuildM.liftExcept x) (fun a => x = .ok a) := by
  intro st a st' hI h
  cases x with
  | error e => simp [BuildM.liftExcept] at h
  | ok a' =>
    simp only [BuildM.liftExcept, Except.ok.injEq, Prod.mk.injEq] at h
    obtain ⟨rfl, rfl⟩ := h
    exact ⟨hI, rfl⟩

theorem setRands (r : List Bool) :
    Tr (QInv P Q) (fun s => .ok ((), { s with rands := r }) : BuildM Unit) (fun _ => True) := by
  apply of_same
  intro st b st' h
  simp only [Except.ok.injEq, Prod.mk.injEq] at h; rw [← h.2]; exact ⟨rfl, rfl⟩

theorem setNormalsRands (ns : List (List Nat)) (r : List Bool) (hns : ∀ n ∈ ns, P n) :
    Tr (QInv P Q) (fun s => .ok ((), { s with normals := ns, rands := r }) : BuildM Unit) (fun _ => True) := by
  intro st b st' hI h
  simp only [Except.ok.injEq, Prod.mk.injEq] at h
  rw [← h.2]
  exact ⟨⟨hI.1, hns⟩, trivial⟩

theorem modifyStore (f : Store → Store) (hf : ∀ s, StoreOk Q s → StoreOk Q (f s)) :
    Tr (QInv P Q) (BuildM.modifyStore f) (fun _ => True) := by
  intro st b st' hI h
  simp only [BuildM.modifyStore, Except.ok.injEq, Prod.mk.injEq] at h
  rw [← h.2]
  exact ⟨⟨hf _ hI.1, hI.2⟩, trivial⟩

theorem setStore (s : Store) (hs : StoreOk Q s) : Tr (QInv P Q) (BuildM.setStore s) (fun _ => True) := by
  intro st b st' hI h
  simp only [BuildM.setStore, Except.ok.injEq, Prod.mk.injEq] at h
  rw [← h.2]
  exact ⟨⟨hs, hI.2⟩, trivial⟩

theorem usedTreeNode (c' : Cfg) : Tr (QInv P Q) (Build.usedTreeNode c') (fun _ => True) := by
  apply of_same
  intro st b st' h
  unfold Build.usedTreeNode at h
  dsimp only at h
  split at h
  · split at h <;> (simp only [Except.ok.injEq, Prod.mk.injEq] at h; rw [← h.2]; exact ⟨rfl, rfl⟩)
  · simp only [Except.ok.injEq, Prod.mk.injEq] at h; rw [← h.2]; exact ⟨rfl, rfl⟩

theorem reifyRoot {c : Cfg} (hq : BuildQ c P Q) (s : Store) (root : Nat) (hs : StoreOk Q s) :
    Tr (QInv P Q) (Build.reifyRoot c s root) (TOk P) := by
  unfold Build.reifyRoot
  split
  · rename_i t ht
    exact Tr.pure _ (reify_tok hq hs _ _ _ ht)
  · exact Tr.fail _

end TrQ

/-- every leaf the DotProduct preprocessing rewrites is a leaf of the store under an item key of the index -/
theorem dotLeaves_mem (c : Cfg) (s : Store) : ∀ kv ∈ dotLeaves c s, ∃ h, (kv.1, Val.leaf h kv.2) ∈ s ∧
    isPrefixOf (encodePrefix c.index (some modeItem)) (encodeKey kv.1) = true := by
  intro kv hkv
  unfold dotLeaves at hkv
  rw [List.mem_filterMap] at hkv
  obtain ⟨⟨k0, v0⟩, hin, hv⟩ := hkv
  simp only [Store.prefixIter, List.mem_filter] at hin
  cases v0 with
  | leaf h v =>
    simp only [Option.some.injEq] at hv
    subst hv
    exact ⟨h, hin.1, hin.2⟩
  | _ => simp at hv

namespace Build
variable {c : Cfg} {P : List Nat → Prop} {Q : Key → Val → Prop}

theorem storeOk_preprocessDot (hq : BuildQ c P Q) (hm : c.metric = .dot) {s : Store} (h : StoreOk Q s) :
    StoreOk Q (preprocessDot c s) := by
  rw [preprocessDot_eq]
  have hmem := dotLeaves_mem c s
  generalize dotLeaves c s = leaves at hmem
  suffices hgen : ∀ st, StoreOk Q st →
      StoreOk Q (List.foldl (fun st (kv : Key × List Nat) => Store.put st kv.1 (dotVal c s kv)) st leaves) from
    hgen s h
  induction leaves with
  | nil => intro st hst; exact hst
  | cons kv rest ih =>
    intro st hst
    rw [List.foldl_cons]
    apply ih (fun kv' hkv' => hmem kv' (List.mem_cons_of_mem _ hkv'))
    obtain ⟨hh, h1, h2⟩ := hmem kv List.mem_cons_self
    exact hst.put _ _ (hq.dot hm kv.1 hh kv.2 s h2 (h _ h1))

theorem preProcessItems_qok (hq : BuildQ c P Q) : Tr (QInv P Q) (preProcessItems c) (fun _ => True) := by
  unfold preProcessItems
  apply Tr.bind TrQ.poll; intro _ _
  split
  · rename_i hm
    exact TrQ.modifyStore _ (fun s hs => storeOk_preprocessDot hq hm hs)
  · exact Tr.pure _ trivial

theorem itemIndices_qok : Tr (QInv P Q) (itemIndices c) (fun _ => True) := by
  unfold itemIndices
  apply Tr.bind TrQ.getStore; intro s _
  apply Tr.bind (TrQ.pollN _); intro _ _
  exact Tr.pure _ trivial

theorem resetUpdated_qok : Tr (QInv P Q) (resetUpdated c) (fun _ => True) := by
  unfold resetUpdated
  apply Tr.bind TrQ.getStore; intro _ _
  apply Tr.bind (Q := fun _ => True)
  · apply Tr.forEach; intro id _
    apply Tr.bind TrQ.poll; intro _ _
    exact TrQ.modifyStore _ (fun s hs => hs.erase _)
  · intro _ _; exact Tr.pure _ trivial

theorem writeMetadata_qok (hq : BuildQ c P Q) (items roots : List Nat) :
    Tr (QInv P Q) (writeMetadata c items roots) (fun _ => True) :=
  TrQ.modifyStore _ (fun s hs => by exact hs.put _ _ (hq.metadata _ _))

theorem singleLeaf_qok (hq : BuildQ c P Q) (items : List Nat) :
    Tr (QInv P Q) (singleLeaf c items) (fun _ => True) := by
  unfold singleLeaf
  apply Tr.bind (TrQ.modifyStore _ (fun s hs => hs.deleteRange _ _)); intro _ _
  dsimp only
  have hjp : ∀ u : Unit, Tr (QInv P Q) ((fun (_ : Unit) => (do
      poll
      writeMetadata c items (if items.isEmpty = true then [] else [0])
      modifyStore fun st => Store.put st c.versionKey
        (.version crateVersion.1 crateVersion.2.1 crateVersion.2.2) : BuildM Unit)) u) (fun _ => True) := by
    intro u
    apply Tr.bind TrQ.poll; intro _ _
    apply Tr.bind (writeMetadata_qok hq _ _); intro _ _
    exact TrQ.modifyStore _ (fun s hs => by exact hs.put _ _ hq.version)
  apply Tr.ite
  · apply Tr.bind (TrQ.modifyStore _ (fun s hs => by exact hs.put _ _ (hq.tree _ _ trivial)))
    intro u _; exact hjp u
  · exact hjp ()

theorem deleteTree_storeOk : ∀ (fuel : Nat) (ref : NodeId) (s s' : Store),
    deleteTree c fuel ref s = .ok s' → StoreOk Q s → StoreOk Q s' := by
  intro fuel
  induction fuel with
  | zero => intro ref s s' e; simp [deleteTree] at e
  | succ fuel ih =>
    intro ref s s' e hs
    unfold deleteTree at e
    split at e
    · simp only [Except.ok.injEq] at e; subst e; exact hs
    · split at e
      · simp at e
      · split at e
        · simp at e
        · rename_i s1 h1
          split at e
          · simp at e
          · rename_i s2 h2
            simp only [Except.ok.injEq] at e; subst e
            exact (ih _ _ _ h2 (ih _ _ _ h1 hs)).erase _
      · simp only [Except.ok.injEq] at e; subst e
        exact hs.erase _
      · simp only [Except.ok.injEq] at e; subst e; exact hs

theorem deleteExtraTrees_qok : ∀ (k : Nat) (roots : List Nat),
    Tr (QInv P Q) (deleteExtraTrees c k roots) (fun _ => True) := by
  intro k
  induction k with
  | zero => intro roots; unfold deleteExtraTrees; exact Tr.pure _ trivial
  | succ k ih =>
    intro roots
    unfold deleteExtraTrees
    apply Tr.bind TrQ.poll; intro _ _
    split
    · exact Tr.pure _ trivial
    · rename_i root rest
      apply Tr.bind TrQ.getStore; intro s hs
      apply Tr.bind (TrQ.liftExcept _); intro s' hs'
      apply Tr.bind (TrQ.setStore _ (deleteTree_storeOk _ _ _ _ hs' hs)); intro _ _
      exact ih _

theorem writeBack_qok (hq : BuildQ c P Q) (removed : List Nat) (puts : List (Nat × Val)) (remap : Nat → Nat)
    (hp : PutsOk P puts) : Tr (QInv P Q) (writeBack c removed puts remap) (fun _ => True) := by
  unfold writeBack
  apply Tr.bind (Q := fun _ => True)
  · apply Tr.forEach; intro id _
    apply Tr.bind TrQ.poll; intro _ _
    exact TrQ.modifyStore _ (fun s hs => hs.erase _)
  · intro _ _
    apply Tr.forEach; intro p hpm
    apply Tr.bind TrQ.poll; intro _ _
    exact TrQ.modifyStore _ (fun s hs => hs.put _ _ (hq.tree _ _ (hp p (List.mem_filter.1 hpm).1)))

theorem deleteLoop_qok (hq : BuildQ c P Q) (o : BuildOpts) (D : List Nat) (s : Store) (hs : StoreOk Q s) :
    ∀ roots, Tr (QInv P Q) (deleteLoop c o D s roots) (fun x => PutsOk P x.2.1) := by
  intro roots
  induction roots with
  | nil => unfold deleteLoop; exact Tr.pure _ (by simp)
  | cons root rest ih =>
    unfold deleteLoop
    apply Tr.bind TrQ.poll; intro _ _
    apply Tr.bind (TrQ.reifyRoot hq s root hs); intro t ht
    apply Tr.bind (TrQ.pollN _); intro _ _
    apply Tr.bind ih; intro x hx
    obtain ⟨a, b, e⟩ := x
    exact Tr.pure _ (by simp only [putsOk_append]; exact ⟨(delT_tok _ _ _ ht).2, hx⟩)

theorem deleteItemsFromTrees_qok (hq : BuildQ c P Q) (o : BuildOpts) (roots D : List Nat) :
    Tr (QInv P Q) (deleteItemsFromTrees c o roots D) (fun _ => True) := by
  unfold deleteItemsFromTrees
  apply Tr.bind TrQ.getStore; intro s hs
  apply Tr.bind (deleteLoop_qok hq o D s hs roots); intro x hx
  obtain ⟨a, b, e⟩ := x
  apply Tr.bind (writeBack_qok hq _ _ _ hx); intro _ _
  exact Tr.pure _ trivial

theorem insertRoots_qok (hq : BuildQ c P Q) (o : BuildOpts) (snapshot : Store) (hs : StoreOk Q snapshot)
    (batch : List Nat) :
    ∀ roots g, Tr (QInv P Q) (insertRoots c o snapshot batch roots g) (fun x => ∀ puts ∈ x.1, PutsOk P puts) := by
  intro roots
  induction roots with
  | nil => intro g; unfold insertRoots; exact Tr.pure _ (by simp)
  | cons root rest ih =>
    intro g
    unfold insertRoots
    apply Tr.bind TrQ.poll; intro _ _
    apply Tr.bind (TrQ.reifyRoot hq snapshot root hs); intro t ht
    apply Tr.bind TrQ.peek; intro st _
    apply Tr.bind (TrQ.liftExcept _); intro r hr
    apply Tr.bind (TrQ.setRands _); intro _ _
    apply Tr.bind (TrQ.pollN _); intro _ _
    apply Tr.bind (ih _); intro x hx
    obtain ⟨a, b, e⟩ := x
    refine Tr.pure _ ?_
    intro puts hp
    rcases List.mem_cons.1 hp with rfl | hp
    · exact (insertT_tok _ _ _ _ _ _ hr ht).2
    · exact hx puts hp

theorem insertItemsInCurrentTrees_qok (hq : BuildQ c P Q) (o : BuildOpts) (roots : List Nat) :
    ∀ (fuel : Nat) (toInsert : List Nat) (g : IdGen),
      Tr (QInv P Q) (insertItemsInCurrentTrees c o roots fuel toInsert g) (fun _ => True) := by
  intro fuel
  induction fuel with
  | zero => intro toInsert g; unfold insertItemsInCurrentTrees; exact Tr.fail _
  | succ fuel ih =>
    intro toInsert g
    unfold insertItemsInCurrentTrees
    apply Tr.ite (Tr.pure _ trivial)
    apply Tr.bind TrQ.poll; intro _ _
    apply Tr.bind TrQ.getStore; intro snapshot hs
    apply Tr.bind TrQ.nextBatch; intro k _
    refine Tr.ite (Tr.fail _) ?_
    apply Tr.bind (insertRoots_qok hq o snapshot hs _ _ _); intro x hx
    obtain ⟨putss, large, g'⟩ := x
    apply Tr.bind (Q := fun _ => True)
    · apply Tr.forEach; intro puts hp; exact writeBack_qok hq _ _ _ (hx puts hp)
    intro _ _
    apply Tr.bind (ih _ _); intro y _
    obtain ⟨large', g''⟩ := y
    exact Tr.pure _ trivial

theorem newTrees_qok (hq : BuildQ c P Q) (items : List Nat) : ∀ (k : Nat) (roots large : List Nat) (g : IdGen),
    Tr (QInv P Q) (newTrees c items k roots large g) (fun _ => True) := by
  intro k
  induction k with
  | zero => intro roots large g; unfold newTrees; exact Tr.pure _ trivial
  | succ k ih =>
    intro roots large g
    unfold newTrees
    apply Tr.bind (TrQ.liftExcept _); intro x _
    obtain ⟨id, g'⟩ := x
    apply Tr.bind (TrQ.modifyStore _ (fun s hs => by exact hs.put _ _ (hq.tree _ _ trivial))); intro _ _
    exact ih _ _ _

theorem incrementalIndexLargeDescendants_qok (hq : BuildQ c P Q) (o : BuildOpts) :
    ∀ (fuel : Nat) (large : List Nat) (g : IdGen),
      Tr (QInv P Q) (incrementalIndexLargeDescendants c o fuel large g) (fun _ => True) := by
  intro fuel
  induction fuel with
  | zero =>
    intro large g; unfold incrementalIndexLargeDescendants
    exact Tr.ite (Tr.pure _ trivial) (Tr.fail _)
  | succ fuel ih =>
    intro large g
    unfold incrementalIndexLargeDescendants
    split
    · exact Tr.pure _ trivial
    · rename_i b large'
      apply Tr.bind TrQ.poll; intro _ _
      apply Tr.bind TrQ.getStore; intro s _
      split
      · rename_i ids hget
        apply Tr.bind TrQ.nextBatch; intro k _
        refine Tr.ite (Tr.fail _) ?_
        apply Tr.bind TrQ.peek; intro st hst
        apply Tr.bind (TrQ.liftExcept _); intro r hr
        obtain ⟨r1, r2, r3⟩ := makeT_tok hq.zero _ _ _ _ _ _ _ hr hst.2
        apply Tr.bind (TrQ.setNormalsRands _ _ r3); intro _ _
        apply Tr.bind (TrQ.pollN _); intro _ _
        apply Tr.bind (writeBack_qok hq _ _ _ r2); intro _ _
        apply Tr.bind (insertItemsInCurrentTrees_qok hq o _ _ _ _); intro x _
        obtain ⟨large'', g'⟩ := x
        exact ih _ _
      · exact Tr.fail _

/-- a build keeps the invariant `QInv P Q` -/
theorem build_qok {c : Cfg} {P : List Nat → Prop} {Q : Key → Val → Prop} (hq : BuildQ c P Q) (o : BuildOpts)
    (fuel : Nat) : Tr (QInv P Q) (Build.build c o fuel) (fun _ => True) := by
  unfold build
  apply Tr.bind (preProcessItems_qok hq); intro _ _
  apply Tr.bind itemIndices_qok; intro items _
  apply Tr.bind resetUpdated_qok; intro updated _
  apply Tr.ite (singleLeaf_qok hq _)
  dsimp only
  apply Tr.bind TrQ.getStore; intro s _
  apply Tr.bind (TrQ.usedTreeNode c); intro used _
  apply Tr.bind (deleteExtraTrees_qok _ _); intro roots _
  apply Tr.bind (deleteItemsFromTrees_qok hq o _ _); intro roots' _
  apply Tr.bind (insertItemsInCurrentTrees_qok hq o _ _ _ _); intro x _
  obtain ⟨large, g⟩ := x
  apply Tr.bind (newTrees_qok hq _ _ _ _ _); intro y _
  obtain ⟨roots'', large', g'⟩ := y
  apply Tr.bind (incrementalIndexLargeDescendants_qok hq o _ _ _); intro _ _
  exact writeMetadata_qok hq _ _

/-- **one build**: from a store all of whose entries satisfy `Q`, with an oracle all of whose normals
    satisfy `P`, a successful build ends on a store all of whose entries satisfy `Q` -/
theorem build_storeOk {c : Cfg} {P : List Nat → Prop} {Q : Key → Val → Prop} (hq : BuildQ c P Q)
    (o : BuildOpts) (fuel : Nat) (st st' : BState) (h : Build.build c o fuel st = .ok ((), st'))
    (hs : StoreOk Q st.store) (hN : ∀ n ∈ st.normals, P n) : StoreOk Q st'.store :=
  (build_qok hq o fuel st () st' ⟨hs, hN⟩ h).1.1

end Build

/-- the trees `Check.trees` reads have the normals of the store -/
theorem trees_tok {c : Cfg} {P : List Nat → Prop} {Q : Key → Val → Prop} (hq : BuildQ c P Q) {s : Store}
    (hs : StoreOk Q s) : ∀ t ∈ Check.trees c s, TOk P t := by
  intro t ht
  unfold Check.trees at ht
  split at ht
  · obtain ⟨r, _, hr⟩ := List.mem_filterMap.1 ht
    exact reify_tok hq hs _ _ _ hr
  · cases ht

end Arroy
