import ArroyModel.Sets
import ArroyProofs.SetLemmas
/-! Facts about `IdSet` needed by the reader theorems: `Sorted` as `Pairwise`, `inter`, `dedup`, `ofList`,
extensionality of strictly increasing lists, and a pigeonhole lemma. -/
namespace Arroy
namespace IdSet

theorem sorted_iff_pairwiseR : ∀ (l : List Nat), Sorted l ↔ l.Pairwise (· < ·)
  | [] => by simp [Sorted]
  | [a] => by simp [Sorted]
  | a :: b :: rest => by
    have ih := sorted_iff_pairwiseR (b :: rest)
    simp only [Sorted, ih, List.pairwise_cons]
    constructor
    · rintro ⟨hab, h1, h2⟩
      refine ⟨?_, h1, h2⟩
      intro x hx
      rcases List.mem_cons.1 hx with rfl | hx
      · exact hab
      · exact Nat.lt_trans hab (h1 x hx)
    · rintro ⟨h0, h1, h2⟩
      exact ⟨h0 b (List.mem_cons_self), h1, h2⟩

theorem Sorted.pairwise {l : List Nat} (h : Sorted l) : l.Pairwise (· < ·) := (sorted_iff_pairwiseR l).1 h

theorem nodup_of_pairwise_lt {l : List Nat} (h : l.Pairwise (· < ·)) : l.Nodup :=
  h.imp (fun hab => Nat.ne_of_lt hab)


/-- two strictly increasing lists with the same members are equal -/
theorem ext_of_pairwise_lt {l₁ l₂ : List Nat} (h₁ : l₁.Pairwise (· < ·)) (h₂ : l₂.Pairwise (· < ·))
    (h : ∀ x, x ∈ l₁ ↔ x ∈ l₂) : l₁ = l₂ := by
  have p : l₁.Perm l₂ := (List.perm_ext_iff_of_nodup (nodup_of_pairwise_lt h₁) (nodup_of_pairwise_lt h₂)).2 h
  have h₁' : l₁.Pairwise (fun a b => decide (a < b) = true) := h₁.imp (by simp)
  have h₂' : l₂.Pairwise (fun a b => decide (a < b) = true) := h₂.imp (by simp)
  exact List.Perm.eq_of_pairwise (le := fun a b => decide (a < b))
    (by intro a b _ _ h1 h2; simp at h1 h2; omega) h₁' h₂' p

/-- `inter` never invents members (no sortedness needed) -/
theorem mem_inter_sub (a b : List Nat) (z : Nat) : z ∈ inter a b → z ∈ a ∧ z ∈ b := by
  fun_induction inter a b <;> grind

theorem length_inter_leR (a b : List Nat) : (inter a b).length ≤ a.length := by
  fun_induction inter a b <;> grind

/-- on strictly increasing lists `inter` is the intersection -/
theorem mem_interR (a b : List Nat) (ha : a.Pairwise (· < ·)) (hb : b.Pairwise (· < ·)) (z : Nat) :
    z ∈ inter a b ↔ z ∈ a ∧ z ∈ b := by
  fun_induction inter a b with
  | case1 => simp
  | case2 => simp
  | case3 x xs y ys hxy ih =>
    rw [List.pairwise_cons] at ha hb
    rw [ih ha.2 (List.pairwise_cons.2 hb)]
    constructor
    · rintro ⟨h1, h2⟩; exact ⟨List.mem_cons_of_mem _ h1, h2⟩
    · rintro ⟨h1, h2⟩
      refine ⟨?_, h2⟩
      rcases List.mem_cons.1 h1 with rfl | h1
      · rcases List.mem_cons.1 h2 with rfl | h2
        · omega
        · have := hb.1 _ h2; omega
      · exact h1
  | case4 x xs y ys hxy hyx ih =>
    rw [List.pairwise_cons] at ha hb
    rw [ih (List.pairwise_cons.2 ha) hb.2]
    constructor
    · rintro ⟨h1, h2⟩; exact ⟨h1, List.mem_cons_of_mem _ h2⟩
    · rintro ⟨h1, h2⟩
      refine ⟨h1, ?_⟩
      rcases List.mem_cons.1 h2 with rfl | h2
      · rcases List.mem_cons.1 h1 with rfl | h1
        · omega
        · have := ha.1 _ h1; omega
      · exact h2
  | case5 x xs y ys hxy hyx ih =>
    have hxy' : x = y := by omega
    subst hxy'
    rw [List.pairwise_cons] at ha hb
    simp only [List.mem_cons, ih ha.2 hb.2]
    constructor
    · rintro (h | ⟨h1, h2⟩)
      · exact ⟨Or.inl h, Or.inl h⟩
      · exact ⟨Or.inr h1, Or.inr h2⟩
    · rintro ⟨h1 | h1, h2 | h2⟩
      · exact Or.inl h1
      · exact Or.inl h1
      · exact Or.inl h2
      · exact Or.inr ⟨h1, h2⟩

theorem mem_dedupR (l : List Nat) (z : Nat) : z ∈ dedup l ↔ z ∈ l := by
  fun_induction dedup l <;> grind

theorem dedup_pairwise (l : List Nat) (h : l.Pairwise (· ≤ ·)) : (dedup l).Pairwise (· < ·) := by
  fun_induction dedup l with
  | case1 => simp
  | case2 => simp
  | case3 a rest ih =>
    exact ih (List.pairwise_cons.1 h).2
  | case4 a b rest hab ih =>
    rw [List.pairwise_cons] at h
    refine List.pairwise_cons.2 ⟨?_, ih h.2⟩
    intro x hx
    rw [mem_dedupR] at hx
    have h1 := h.1 x hx
    rcases List.mem_cons.1 hx with rfl | hx'
    · omega
    · have h2 := h.1 b List.mem_cons_self
      have h3 := (List.pairwise_cons.1 h.2).1 x hx'
      omega

theorem mem_ofListR (l : List Nat) (z : Nat) : z ∈ ofList l ↔ z ∈ l := by
  unfold ofList; rw [mem_dedupR, List.mem_mergeSort]

theorem ofList_pairwise (l : List Nat) : (ofList l).Pairwise (· < ·) := by
  unfold ofList
  apply dedup_pairwise
  have := List.pairwise_mergeSort (le := fun a b : Nat => decide (a ≤ b))
    (by intro a b c h1 h2; simp at *; omega) (by intro a b; simp; omega) l
  exact this.imp (by simp)

theorem ofList_nodup (l : List Nat) : (ofList l).Nodup := nodup_of_pairwise_lt (ofList_pairwise l)

/-- `ofList` of a list whose members are those of a strictly increasing list is that list -/
theorem ofList_eq_of_mem {l s : List Nat} (hs : s.Pairwise (· < ·)) (h : ∀ x, x ∈ l ↔ x ∈ s) : ofList l = s :=
  ext_of_pairwise_lt (ofList_pairwise l) hs (fun x => by rw [mem_ofListR, h])

end IdSet

/-- pigeonhole: a duplicate-free list whose members all lie in `L` is no longer than `L` -/
theorem length_le_of_nodup_subset {α : Type} [DecidableEq α] :
    ∀ (L l : List α), l.Nodup → (∀ x ∈ l, x ∈ L) → l.length ≤ L.length
  | [], l, _, hsub => by
    cases l with
    | nil => simp
    | cons a l => exact absurd (hsub a List.mem_cons_self) (by simp)
  | b :: L, l, hnd, hsub => by
    have ih := length_le_of_nodup_subset L (l.erase b) (hnd.erase b) (by
      intro x hx
      have hx' := (List.Nodup.mem_erase_iff hnd).1 hx
      rcases List.mem_cons.1 (hsub x hx'.2) with rfl | h
      · exact absurd rfl hx'.1
      · exact h)
    by_cases hb : b ∈ l
    · rw [List.length_erase_of_mem hb] at ih
      simp only [List.length_cons]; omega
    · rw [List.erase_of_not_mem hb] at ih
      simp only [List.length_cons]; omega

end Arroy
