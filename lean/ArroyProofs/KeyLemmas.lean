import ArroyModel.Key
/-! Helper lemmas: big-endian encodings, byte order, prefixes. -/
namespace Arroy

theorem be_length (w n : Nat) : (be w n).length = w := by
  induction w generalizing n with
  | zero => rfl
  | succ w ih => simp [be, ih]

theorem le_length (w n : Nat) : (le w n).length = w := by
  induction w generalizing n with
  | zero => rfl
  | succ w ih => simp [le, ih]

theorem lexLt_irrefl (l : Bytes) : lexLt l l = false := by
  induction l with
  | nil => rfl
  | cons x xs ih => simp [lexLt, ih]

theorem lexLt_append {a b c d : Bytes} (h : a.length = b.length) :
    lexLt (a ++ c) (b ++ d) = (lexLt a b || (a == b && lexLt c d)) := by
  induction a generalizing b with
  | nil => cases b with
    | nil => simp [lexLt]
    | cons _ _ => simp at h
  | cons x xs ih => cases b with
    | nil => simp at h
    | cons y ys =>
      simp only [List.length_cons, Nat.add_right_cancel_iff] at h
      simp only [List.cons_append, lexLt, ih h]
      by_cases hxy : x = y
      · subst hxy; simp [Bool.or_assoc]
      · have : (x == y) = false := by simpa using hxy
        simp [this, hxy]

theorem be_lt (w a b : Nat) (ha : a < 256^w) (hb : b < 256^w) :
    lexLt (be w a) (be w b) = decide (a < b) := by
  induction w generalizing a b with
  | zero => simp at ha hb; subst ha hb; simp [be, lexLt]
  | succ w ih =>
    simp only [be, lexLt]
    have hpos : 0 < 256^w := Nat.pow_pos (by decide)
    have ha' : a / 256^w < 256 := by
      rw [Nat.div_lt_iff_lt_mul hpos]; rw [Nat.pow_succ] at ha; rw [Nat.mul_comm]; exact ha
    have hb' : b / 256^w < 256 := by
      rw [Nat.div_lt_iff_lt_mul hpos]; rw [Nat.pow_succ] at hb; rw [Nat.mul_comm]; exact hb
    rw [Nat.mod_eq_of_lt ha', Nat.mod_eq_of_lt hb', ih _ _ (Nat.mod_lt _ hpos) (Nat.mod_lt _ hpos)]
    have ea := Nat.div_add_mod a (256^w)
    have eb := Nat.div_add_mod b (256^w)
    have ma := Nat.mod_lt a hpos
    have mb := Nat.mod_lt b hpos
    generalize a / 256^w = qa at *
    generalize b / 256^w = qb at *
    generalize a % 256^w = ra at *
    generalize b % 256^w = rb at *
    generalize 256^w = m at *
    subst ea eb
    by_cases h1 : qa < qb
    · have : m * qa + ra < m * qb + rb := by
        have : m * (qa + 1) ≤ m * qb := Nat.mul_le_mul_left m h1
        rw [Nat.mul_add] at this; omega
      simp [h1, this]
    · by_cases h2 : qa = qb
      · subst h2
        simp only [Nat.lt_irrefl, decide_false, beq_self_eq_true, Bool.true_and, Bool.false_or]
        congr 1; apply propext; constructor <;> intro h <;> omega
      · have h3 : qb < qa := by omega
        have : ¬ (m * qa + ra < m * qb + rb) := by
          have : m * (qb + 1) ≤ m * qa := Nat.mul_le_mul_left m h3
          rw [Nat.mul_add] at this; omega
        have hbeq : (qa == qb) = false := by simpa using h2
        simp [h1, hbeq, this]

theorem be_inj (w a b : Nat) (ha : a < 256^w) (hb : b < 256^w) (h : be w a = be w b) : a = b := by
  have h1 := be_lt w a b ha hb
  have h2 := be_lt w b a hb ha
  rw [h] at h1
  rw [lexLt_irrefl] at h1
  rw [← h, lexLt_irrefl] at h2
  have : ¬ a < b := by simpa using h1.symm
  have : ¬ b < a := by simpa using h2.symm
  omega

theorem beq_be (w a b : Nat) (ha : a < 256^w) (hb : b < 256^w) : (be w a == be w b) = (a == b) := by
  by_cases h : a = b
  · subst h; simp
  · have h1 : be w a ≠ be w b := fun e => h (be_inj w a b ha hb e)
    rw [beq_eq_false_iff_ne.2 h1, beq_eq_false_iff_ne.2 h]

theorem ofBe_append_be (acc : Nat) (w n : Nat) (hn : n < 256^w) :
    (be w n).foldl (fun acc b => acc * 256 + b) acc = acc * 256^w + n := by
  induction w generalizing acc n with
  | zero => simp at hn; subst hn; simp [be]
  | succ w ih =>
    have hpos : 0 < 256^w := Nat.pow_pos (by decide)
    have hq : n / 256^w < 256 := by
      rw [Nat.div_lt_iff_lt_mul hpos]; rw [Nat.pow_succ] at hn; rw [Nat.mul_comm]; exact hn
    simp only [be, List.foldl_cons]
    rw [ih _ _ (Nat.mod_lt _ hpos), Nat.mod_eq_of_lt hq]
    have := Nat.div_add_mod n (256^w)
    rw [Nat.pow_succ, Nat.add_mul, Nat.mul_assoc]
    rw [Nat.mul_comm 256 (256^w)]
    rw [Nat.mul_comm (n / 256^w)]
    omega

theorem ofBe_be (w n : Nat) (hn : n < 256^w) : ofBe (be w n) = n := by
  unfold ofBe; rw [ofBe_append_be 0 w n hn]; simp

theorem ofLe_le (w n : Nat) (hn : n < 256^w) : ofLe (le w n) = n := by
  induction w generalizing n with
  | zero => simp at hn; subst hn; rfl
  | succ w ih =>
    simp only [le, ofLe]
    have : n / 256 < 256^w := by
      rw [Nat.div_lt_iff_lt_mul (by decide)]; rw [Nat.pow_succ] at hn; exact hn
    rw [ih _ this]
    have := Nat.div_add_mod n 256
    omega

end Arroy
