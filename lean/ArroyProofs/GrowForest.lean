import ArroyProofs.InsertAll
/-! Forest-level consequences: inserting into every tree of a forest (`insertItemsInCurrentTrees`
over all roots) and creating the missing trees (`newTrees`). -/
namespace Arroy
open BuildM Generated IdSet

theorem insertItems_forest (c : Cfg) (o : BuildOpts) (roots items items' ins : List Nat) (ts : List T)
    (g g' : IdGen) (inUse : List Nat) (st st' : BState) (large : List Nat) (fuel : Nat)
    (f : Forest c st.store roots items ts)
    (hin : ∀ i ∈ ts.flatMap T.ids, i ∈ inUse) (hg : GenOK inUse g)
    (hw : Store.WF st.store) (hi : c.index < 65536) (hs : Sorted ins)
    (hdisj : ∀ x ∈ ins, x ∉ items) (hitems : ∀ x, x ∈ items' ↔ x ∈ items ∨ x ∈ ins)
    (h : Build.insertItemsInCurrentTrees c o roots fuel ins g st = .ok ((large, g'), st')) :
    ∃ (ts' : List T) (inUse' : List Nat),
      Forest c st'.store roots items' ts' ∧
      GenOK inUse' g' ∧ (∀ i ∈ inUse, i ∈ inUse') ∧ (∀ i ∈ ts'.flatMap T.ids, i ∈ inUse') ∧
      StoreStep c st.store st'.store ∧ TreeFrame c st.store st'.store ∧
      All2 (InsRel (Build.treeCtx c o st.store) ins) ts ts' ∧
      ((roots = [] ∨ ins = []) → ts' = ts ∧ large = []) ∧
      (roots ≠ [] → ins ≠ [] → ∀ t' ∈ ts', ∀ b ∈ t'.buckets, ¬ fits (Build.cap c o) b.2.length → b.1 ∈ large) := by
  obtain ⟨ts', inUse', c1, c2, c3, c4, c5, c6, c7, c8, c9, c10, c11, c12, c13⟩ :=
    insertAll_spec c o roots hi fuel ins ts g g' inUse st st' large f.refs f.holds f.ids_nodup hin hg hw hs h
  refine ⟨ts', inUse', ⟨c1, c2, c3, ?_, ?_, ?_, ?_⟩, c6, c7, c8, c10, fun k hk => c9 k (fun i _ => hk i), c11,
    fun h' => ⟨(c12 h').1, (c12 h').2.1⟩, c13⟩
  · intro id
    constructor
    · intro hsome
      by_cases hm : id ∈ ts'.flatMap T.ids
      · exact hm
      · rw [c9 _ (fun i hi' e => hm (by rw [Cfg.treeKey_inj.1 e]; exact hi'))] at hsome
        exact c5 id ((f.cover id).1 hsome)
    · intro hm
      obtain ⟨t, ht, hit⟩ := List.mem_flatMap.1 hm
      exact (c2 t ht).isSome hit
  · intro t' ht'
    obtain ⟨t, ht, hr⟩ := c11.mem_right t' ht'
    exact hr.wf hs (f.wf t ht)
  · intro t' ht'
    obtain ⟨t, ht, hr⟩ := c11.mem_right t' ht'
    exact hr.nodup hs (f.wf t ht) (f.items_nodup t ht) (fun x hx hxt => hdisj x hx ((f.reach t ht x).1 hxt))
  · intro t' ht' x
    obtain ⟨t, ht, hr⟩ := c11.mem_right t' ht'
    rw [hr.items, f.reach t ht x, hitems]

/-! ## `newTrees` -/

theorem Forest.snoc {c : Cfg} {s : Store} {roots items : List Nat} {ts : List T} (f : Forest c s roots items ts)
    (id : Nat) (hid : id ∉ ts.flatMap T.ids) (hs : Sorted items) :
    Forest c (s.put (c.treeKey id) (.desc items)) (roots ++ [id]) items (ts ++ [.bucket id items]) := by
  refine ⟨?_, ?_, ?_, ?_, ?_, ?_, ?_⟩
  · simp [f.refs, T.ref]
  · intro t ht
    rcases List.mem_append.1 ht with ht | ht
    · apply (f.holds t ht).frame
      intro i hi
      apply Store.get_put_other
      intro e
      exact hid (List.mem_flatMap.2 ⟨t, ht, by rw [← Cfg.treeKey_inj.1 e]; exact hi⟩)
    · simp only [List.mem_singleton] at ht
      subst ht
      intro cell hc
      simp only [T.cells, List.mem_singleton] at hc
      subst hc
      exact Store.get_put_same _ _ _
  · simp only [List.flatMap_append, List.flatMap_cons, List.flatMap_nil, T.ids, List.append_nil, List.nodup_append]
    refine ⟨f.ids_nodup, by simp, ?_⟩
    intro a ha b hb e
    simp only [List.mem_singleton] at hb
    subst hb; subst e
    exact hid ha
  · intro i
    rw [Store.get_put]
    by_cases hi : i = id
    · subst hi
      simp [T.ids]
    · have : c.treeKey i ≠ c.treeKey id := fun e => hi (Cfg.treeKey_inj.1 e)
      simp only [this, ↓reduceIte, f.cover i, List.flatMap_append, List.flatMap_cons, List.flatMap_nil, T.ids,
        List.append_nil, List.mem_append, List.mem_singleton, hi, or_false]
  · intro t ht
    rcases List.mem_append.1 ht with ht | ht
    · exact f.wf t ht
    · simp only [List.mem_singleton] at ht
      subst ht
      exact hs
  · intro t ht
    rcases List.mem_append.1 ht with ht | ht
    · exact f.items_nodup t ht
    · simp only [List.mem_singleton] at ht
      subst ht
      exact hs.nodup
  · intro t ht x
    rcases List.mem_append.1 ht with ht | ht
    · exact f.reach t ht x
    · simp only [List.mem_singleton] at ht
      subst ht
      rfl

theorem newTrees_spec (c : Cfg) (items : List Nat) (hi : c.index < 65536) (hs : Sorted items) (k : Nat) :
    ∀ (roots large roots' large' : List Nat) (ts : List T) (g g' : IdGen) (inUse : List Nat) (st st' : BState),
    Forest c st.store roots items ts →
    (∀ i ∈ ts.flatMap T.ids, i ∈ inUse) → GenOK inUse g →
    Build.newTrees c items k roots large g st = .ok ((roots', large', g'), st') →
    ∃ (ts' : List T) (inUse' : List Nat),
      Forest c st'.store roots' items ts' ∧ roots'.length = roots.length + k ∧
      GenOK inUse' g' ∧ (∀ i ∈ inUse, i ∈ inUse') ∧ (∀ i ∈ ts'.flatMap T.ids, i ∈ inUse') ∧
      StoreStep c st.store st'.store ∧ TreeFrame c st.store st'.store ∧
      (∀ t' ∈ ts', t' ∈ ts ∨ ∃ id, t' = .bucket id items ∧ id ∈ large') ∧
      (∀ i ∈ large, i ∈ large') := by
  induction k with
  | zero =>
    intro roots large roots' large' ts g g' inUse st st' f hin hg h
    simp only [Build.newTrees] at h
    obtain ⟨e1, rfl⟩ := pure_ok' h
    simp only [Prod.mk.injEq] at e1
    obtain ⟨rfl, rfl, rfl⟩ := e1
    exact ⟨ts, inUse, f, by simp, hg, fun _ h => h, hin, .refl _, TreeFrame.refl _ _, fun _ h => Or.inl h,
      fun _ h => h⟩
  | succ k ih =>
    intro roots large roots' large' ts g g' inUse st st' f hin hg h
    simp only [Build.newTrees] at h
    obtain ⟨x, st1, h1, k1⟩ := bind_ok_inv h
    clear h
    obtain ⟨id, g1⟩ := x
    obtain ⟨hn, e1⟩ := liftExcept_ok' h1
    simp only at k1
    obtain ⟨u2, st2, h2, k2⟩ := bind_ok_inv k1
    clear k1
    have e2 := modifyStore_ok' h2
    subst e1 e2
    obtain ⟨hfresh, hlt, hg1⟩ := hg.step hn
    have hid : id ∉ ts.flatMap T.ids := fun hm => hfresh (hin id hm)
    have f1 := f.snoc id hid hs
    obtain ⟨ts', inUse', c1, c2, c3, c4, c5, c6, c7, c8, c9⟩ :=
      ih (roots ++ [id]) (IdSet.insert id large) roots' large' (ts ++ [.bucket id items]) g1 g' (id :: inUse)
        { st with store := st.store.put (c.treeKey id) (.desc items) } st' f1
        (by
          intro i hi'
          simp only [List.flatMap_append, List.flatMap_cons, List.flatMap_nil, T.ids, List.append_nil,
            List.mem_append, List.mem_singleton] at hi'
          rcases hi' with hi' | hi'
          · exact List.mem_cons_of_mem _ (hin i hi')
          · subst hi'; exact List.mem_cons_self)
        hg1 k2
    refine ⟨ts', inUse', c1, ?_, c3, fun i hi' => c4 i (List.mem_cons_of_mem _ hi'), c5, ?_, ?_, ?_, ?_⟩
    · rw [c2]; simp only [List.length_append, List.length_cons, List.length_nil]; omega
    · exact ((StoreStep.refl _).put_tree _ _ (c.treeKey_wf id hi hlt) (c.treeKey_mode id)).trans c6
    · refine TreeFrame.trans ?_ c7
      intro k' hk'
      exact Store.get_put_other _ _ _ _ (hk' id)
    · intro t' ht'
      rcases c8 t' ht' with h' | h'
      · rcases List.mem_append.1 h' with h'' | h''
        · exact Or.inl h''
        · simp only [List.mem_singleton] at h''
          exact Or.inr ⟨id, h'', c9 id (mem_insert.2 (Or.inl rfl))⟩
      · exact Or.inr h'
    · intro i hi'
      exact c9 i (mem_insert.2 (Or.inr hi'))

end Arroy
