import ArroyProofs.ForestDefs
/-! `delete_tree` erases exactly the nodes of a held tree; `delete_extra_trees k` removes
`min k roots.length` whole trees and leaves a forest on the remaining roots. -/
namespace Arroy
open BuildM Generated

/-- keys that are not tree keys of index `c` are the same in both stores -/
def TreeFrame (c : Cfg) (s s' : Store) : Prop := ∀ k : Key, (∀ i, k ≠ c.treeKey i) → Store.get s' k = Store.get s k

theorem TreeFrame.refl (c : Cfg) (s : Store) : TreeFrame c s s := fun _ _ => rfl

theorem TreeFrame.trans {c : Cfg} {s1 s2 s3 : Store} (h1 : TreeFrame c s1 s2) (h2 : TreeFrame c s2 s3) :
    TreeFrame c s1 s3 := fun k hk => (h2 k hk).trans (h1 k hk)

theorem Cfg.itemKey_ne_treeKey (c : Cfg) (id i : Nat) : c.itemKey id ≠ c.treeKey i := by
  intro e
  have := congrArg Key.mode e
  simp [Cfg.itemKey, Cfg.treeKey, Key.mkItem, Key.mkTree, modeItem, modeTree] at this

theorem Cfg.metaKey_ne_treeKey (c : Cfg) (i : Nat) : c.metaKey ≠ c.treeKey i := by
  intro e
  have := congrArg Key.mode e
  simp [Cfg.metaKey, Cfg.treeKey, Key.mkMetadata, Key.mkTree, metadataKeyMode, modeMetadata, modeTree] at this

theorem Cfg.versionKey_ne_treeKey (c : Cfg) (i : Nat) : c.versionKey ≠ c.treeKey i := by
  intro e
  have := congrArg Key.mode e
  simp [Cfg.versionKey, Cfg.treeKey, Key.mkVersion, Key.mkTree, versionKeyMode, modeMetadata, modeTree] at this

theorem Cfg.updatedKey_ne_treeKey (c : Cfg) (id i : Nat) : c.updatedKey id ≠ c.treeKey i := by
  intro e
  have := congrArg Key.mode e
  simp [Cfg.updatedKey, Cfg.treeKey, Key.mkUpdated, Key.mkTree, modeUpdated, modeTree] at this

theorem TreeFrame.item {c : Cfg} {s s' : Store} (h : TreeFrame c s s') (id : Nat) :
    Store.get s' (c.itemKey id) = Store.get s (c.itemKey id) := h _ (c.itemKey_ne_treeKey id)

theorem TreeFrame.meta {c : Cfg} {s s' : Store} (h : TreeFrame c s s') :
    Store.get s' c.metaKey = Store.get s c.metaKey := h _ c.metaKey_ne_treeKey

theorem TreeFrame.updated {c : Cfg} {s s' : Store} (h : TreeFrame c s s') (id : Nat) :
    Store.get s' (c.updatedKey id) = Store.get s (c.updatedKey id) := h _ (c.updatedKey_ne_treeKey id)

theorem TreeFrame.treeCtx {c : Cfg} {s s' : Store} (h : TreeFrame c s s') (o : BuildOpts) :
    Build.treeCtx c o s' = Build.treeCtx c o s := treeCtx_congr c o h.item

/-! ## `deleteTree` -/

theorem deleteTree_spec (c : Cfg) (t : T) : ∀ (fuel : Nat) (s s' : Store), Holds c s t → t.ids.Nodup →
    Build.deleteTree c fuel t.ref s = .ok s' →
    StoreStep c s s' ∧ (∀ i ∈ t.ids, Store.get s' (c.treeKey i) = none) ∧
    (∀ k, (∀ i ∈ t.ids, k ≠ c.treeKey i) → Store.get s' k = Store.get s k) := by
  induction t with
  | leaf i =>
    intro fuel s s' _ _ h
    cases fuel with
    | zero => simp [Build.deleteTree] at h
    | succ f =>
      simp only [Build.deleteTree, T.ref, NodeId.isItem_mkItem, ↓reduceIte, Except.ok.injEq] at h
      subst h
      exact ⟨.refl s, (by intro i hi; cases hi), (fun _ _ => rfl)⟩
  | bucket id its =>
    intro fuel s s' hh _ h
    cases fuel with
    | zero => simp [Build.deleteTree] at h
    | succ f =>
      have hb : Store.get s ⟨c.index, (NodeId.mkTree id).mode, (NodeId.mkTree id).item⟩ = some (.desc its) := hh.bucket
      simp only [Build.deleteTree, T.ref, NodeId.isItem_mkTree, Bool.false_eq_true, ↓reduceIte, hb,
        Except.ok.injEq] at h
      subst h
      refine ⟨(StoreStep.refl s).erase _, ?_, ?_⟩
      · intro i hi
        simp only [T.ids, List.mem_singleton] at hi
        subst hi
        exact Store.get_erase_same s _
      · intro k hk
        exact Store.get_erase_other s _ k (hk id (by simp [T.ids]))
  | node id n l r ihl ihr =>
    intro fuel s s' hh hnd h
    cases fuel with
    | zero => simp [Build.deleteTree] at h
    | succ f =>
      have hb : Store.get s ⟨c.index, (NodeId.mkTree id).mode, (NodeId.mkTree id).item⟩ = some (.split l.ref r.ref n) :=
        hh.root
      simp only [T.ids, List.nodup_cons, List.nodup_append, List.mem_append, not_or] at hnd
      obtain ⟨⟨hidl, hidr⟩, hndl, hndr, hdisj⟩ := hnd
      have hre : (T.node id n l r).ref = NodeId.mkTree id := rfl
      rw [hre] at h
      simp only [Build.deleteTree, NodeId.isItem_mkTree, Bool.false_eq_true, ↓reduceIte, hb] at h
      cases h1 : Build.deleteTree c f l.ref s with
      | error e => simp [h1] at h
      | ok s1 =>
        obtain ⟨st1, e1, f1⟩ := ihl f s s1 hh.left hndl h1
        simp only [h1] at h
        cases h2 : Build.deleteTree c f r.ref s1 with
        | error e => simp [h2] at h
        | ok s2 =>
          have hr1 : Holds c s1 r := hh.right.frame (by
            intro i hi
            exact f1 _ (fun j hj e => hdisj j hj i hi (Cfg.treeKey_inj.1 e).symm))
          obtain ⟨st2, e2, f2⟩ := ihr f s1 s2 hr1 hndr h2
          simp only [h2, Except.ok.injEq] at h
          subst h
          refine ⟨(st1.trans st2).erase _, ?_, ?_⟩
          · intro i hi
            simp only [T.ids, List.mem_cons, List.mem_append] at hi
            by_cases hi0 : i = id
            · subst hi0; exact Store.get_erase_same _ _
            · have hne : c.treeKey i ≠ ⟨c.index, (NodeId.mkTree id).mode, (NodeId.mkTree id).item⟩ := by
                intro e; exact hi0 (Cfg.treeKey_inj.1 e)
              rw [Store.get_erase_other _ _ _ hne]
              rcases hi with hi | hi | hi
              · exact absurd hi hi0
              · by_cases hir : i ∈ r.ids
                · exact e2 i hir
                · rw [f2 _ (fun j hj e => hir (by rw [Cfg.treeKey_inj.1 e]; exact hj))]
                  exact e1 i hi
              · exact e2 i hi
          · intro k hk
            have hk0 : k ≠ ⟨c.index, (NodeId.mkTree id).mode, (NodeId.mkTree id).item⟩ := hk id (by simp [T.ids])
            rw [Store.get_erase_other _ _ _ hk0,
              f2 k (fun j hj => hk j (by simp [T.ids, hj])),
              f1 k (fun j hj => hk j (by simp [T.ids, hj]))]

/-! ## removing the first tree of a forest -/

theorem Forest.tail {c : Cfg} {s s' : Store} {r : Nat} {roots items : List Nat} {t : T} {ts : List T}
    (f : Forest c s (r :: roots) items (t :: ts))
    (gone : ∀ i ∈ t.ids, Store.get s' (c.treeKey i) = none)
    (same : ∀ k, (∀ i ∈ t.ids, k ≠ c.treeKey i) → Store.get s' k = Store.get s k) :
    Forest c s' roots items ts := by
  have hnd := f.ids_nodup
  simp only [List.flatMap_cons, List.nodup_append] at hnd
  obtain ⟨_, hnd2, hdisj⟩ := hnd
  have hrefs := f.refs
  simp only [List.map_cons, List.cons.injEq] at hrefs
  refine ⟨hrefs.2, ?_, hnd2, ?_, fun t' ht' => f.wf t' (List.mem_cons_of_mem _ ht'),
    fun t' ht' => f.items_nodup t' (List.mem_cons_of_mem _ ht'),
    fun t' ht' => f.reach t' (List.mem_cons_of_mem _ ht')⟩
  · intro t' ht'
    apply (f.holds t' (List.mem_cons_of_mem _ ht')).frame
    intro i hi
    apply same
    intro j hj e
    exact hdisj j hj i (List.mem_flatMap.2 ⟨t', ht', hi⟩) (Cfg.treeKey_inj.1 e).symm
  · intro id
    by_cases hid : id ∈ t.ids
    · rw [gone id hid]
      simp only [Option.isSome_none, Bool.false_eq_true, false_iff]
      intro hm
      exact hdisj id hid id hm rfl
    · rw [same _ (fun j hj e => hid (by rw [Cfg.treeKey_inj.1 e]; exact hj)), f.cover id]
      simp only [List.flatMap_cons, List.mem_append, hid, false_or]

/-! ## `swap_remove(0)` -/

theorem swapRemove0_perm_tail {α : Type} (rest : List α) : (rest.getLast?.toList ++ rest.dropLast).Perm rest := by
  rcases List.eq_nil_or_concat rest with rfl | ⟨l, b, rfl⟩
  · simp
  · simp only [List.concat_eq_append, List.getLast?_concat, Option.toList, List.dropLast_concat]
    exact List.perm_append_comm

/-- the generic shape of `swapRemove0` -/
def swapRem {α : Type} : List α → List α
  | [] => []
  | [_] => []
  | _ :: rest => rest.getLast?.toList ++ rest.dropLast

theorem swapRem_perm {α : Type} (x : α) (rest : List α) : (swapRem (x :: rest)).Perm rest := by
  cases rest with
  | nil => simp [swapRem]
  | cons y ys => exact swapRemove0_perm_tail (y :: ys)

theorem swapRem_map {α : Type} (f : α → Nat) (l : List α) : (swapRem l).map f = Build.swapRemove0 (l.map f) := by
  match l with
  | [] => rfl
  | [_] => rfl
  | x :: y :: ys =>
    simp only [swapRem, Build.swapRemove0, List.map_cons, List.map_append, List.map_dropLast]
    congr 1
    have := List.getLast?_map (f := f) (l := y :: ys)
    simp only [List.map_cons] at this
    rw [this]
    cases (y :: ys).getLast? <;> rfl

theorem swapRemove0_length (l : List Nat) : (Build.swapRemove0 l).length = l.length - 1 := by
  match l with
  | [] => rfl
  | [_] => rfl
  | x :: y :: ys =>
    have := (swapRem_perm x (y :: ys)).length_eq
    have e := swapRem_map id (x :: y :: ys)
    simp only [List.map_id] at e
    rw [← e, this]
    simp

/-! ## `deleteExtraTrees` -/

theorem deleteExtraTrees_spec (c : Cfg) (items : List Nat) (k : Nat) :
    ∀ (roots : List Nat) (ts : List T) (st st' : BState) (roots' : List Nat),
    Forest c st.store roots items ts →
    Build.deleteExtraTrees c k roots st = .ok (roots', st') →
    ∃ ts', Forest c st'.store roots' items ts' ∧ (∀ t ∈ ts', t ∈ ts) ∧
      StoreStep c st.store st'.store ∧ TreeFrame c st.store st'.store ∧
      roots'.length = roots.length - k := by
  induction k with
  | zero =>
    intro roots ts st st' roots' f h
    simp only [Build.deleteExtraTrees] at h
    cases pure_ok_inv h
    exact ⟨ts, f, fun _ h => h, .refl _, TreeFrame.refl _ _, by simp⟩
  | succ k ih =>
    intro roots ts st st' roots' f h
    simp only [Build.deleteExtraTrees] at h
    obtain ⟨u, st1, h1, h⟩ := bind_ok_inv h
    have e1 := poll_store' h1
    cases roots with
    | nil =>
      simp only at h
      obtain ⟨rfl, rfl⟩ := pure_ok' h
      rw [e1]
      exact ⟨ts, f, fun _ h => h, .refl _, TreeFrame.refl _ _, by simp⟩
    | cons root rest =>
      simp only at h
      obtain ⟨s, st2, h2, h⟩ := bind_ok_inv h
      obtain ⟨rfl, rfl⟩ := getStore_ok' h2
      obtain ⟨s', st3, h3, h⟩ := bind_ok_inv h
      obtain ⟨hd, rfl⟩ := liftExcept_ok' h3
      obtain ⟨u4, st4, h4, h⟩ := bind_ok_inv h
      have e4 := setStore_ok' h4
      subst e4
      cases ts with
      | nil => have := f.length; simp at this
      | cons t ts =>
        have hrefs := f.refs
        simp only [List.map_cons, List.cons.injEq] at hrefs
        rw [e1] at hd
        rw [← hrefs.1] at hd
        obtain ⟨hstep, hgone, hsame⟩ := deleteTree_spec c t _ _ _ (f.holds t (by simp)) (f.tree_nodup (by simp)) hd
        have ftail : Forest c s' rest items ts := f.tail hgone hsame
        -- reorder the remaining trees like `swap_remove(0)` does
        have fperm := ftail.perm (swapRem_perm t ts)
        rw [swapRem_map] at fperm
        have hr : (t :: ts).map (fun t => t.ref.item) = root :: rest := f.roots_eq.symm
        rw [hr] at fperm
        obtain ⟨ts', f', hsub, hstep', hframe', hlen⟩ :=
          ih (Build.swapRemove0 (root :: rest)) (swapRem (t :: ts)) _ st' roots' fperm h
        refine ⟨ts', f', ?_, hstep.trans hstep', ?_, ?_⟩
        · intro t' ht'
          exact List.mem_cons_of_mem _ ((swapRem_perm t ts).mem_iff.1 (hsub t' ht'))
        · refine TreeFrame.trans ?_ hframe'
          intro k hk
          exact hsame k (fun i _ => hk i)
        · rw [hlen, swapRemove0_length]
          simp only [List.length_cons]
          omega

end Arroy
