import ArroyProofs.DelT
/-! `delete_items_from_trees`: the forest-level lift of the `delT` specification. All roots share one
`TmpNodes`; the trees having pairwise disjoint node ids makes the concatenated staged writes adequate
for each of them. -/
namespace Arroy
open BuildM IdSet

theorem reifyRoot_ok {c : Cfg} {s : Store} {root : Nat} {st st' : BState} {t : T}
    (h : Build.reifyRoot c s root st = .ok (t, st')) :
    reify c s (s.length + 1) (NodeId.mkTree root) = some t ∧ st' = st := by
  unfold Build.reifyRoot at h
  cases hre : reify c s (s.length + 1) (NodeId.mkTree root) with
  | none => rw [hre] at h; simp [fail] at h
  | some t' =>
    rw [hre] at h
    simp only [pure, pure'] at h
    cases h
    exact ⟨rfl, rfl⟩

theorem deleteLoop_spec (c : Cfg) (o : BuildOpts) (D : List Nat) (s : Store) (roots : List Nat) :
    ∀ {st st' : BState} {res : List Nat × List (Nat × Val) × List Nat},
    Build.deleteLoop c o D s roots st = .ok (res, st') →
    ∃ ts : List T,
      roots.map (fun root => reify c s (s.length + 1) (NodeId.mkTree root)) = ts.map some ∧
      res = (ts.map (fun t => (delT (Build.cap c o) D t).tree.ref.item),
             ts.flatMap (fun t => (delT (Build.cap c o) D t).puts),
             ts.flatMap (fun t => (delT (Build.cap c o) D t).removed)) ∧
      st' = { st with polls := st.polls + roots.length + (ts.flatMap T.ids).length } := by
  induction roots with
  | nil =>
    intro st st' res h
    simp only [Build.deleteLoop, pure, pure'] at h
    cases h
    exact ⟨[], rfl, rfl, rfl⟩
  | cons root rest ih =>
    intro st st' res h
    simp only [Build.deleteLoop, bind, bind'] at h
    split at h
    · rename_i u1 s1 hp
      have e1 := poll_ok hp
      split at h
      · rename_i t s2 hr
        obtain ⟨hreify, e2⟩ := reifyRoot_ok hr
        split at h
        · rename_i u3 s3 hpn
          have e3 := pollN_ok hpn
          split at h
          · rename_i x s4 hloop
            obtain ⟨ts, hf, hres, e4⟩ := ih hloop
            obtain ⟨roots', puts, removed⟩ := x
            simp only [pure, pure'] at h
            cases h
            simp only [Prod.mk.injEq] at hres
            obtain ⟨h1, h2, h3⟩ := hres
            refine ⟨t :: ts, by simp only [List.map_cons, hreify, hf], ?_, ?_⟩
            · simp only [List.map_cons, List.flatMap_cons, h1, h2, h3]
            · rw [e4, e3, e2, e1]
              simp only [delT_polls, List.length_cons, List.flatMap_cons, List.length_append, BState.mk.injEq,
                true_and, and_true]
              omega
          · cases h
        · cases h
      · cases h
    · cases h

/-! ## enough fuel: a held tree with distinct ids is no deeper than the store is long -/

theorem Store.length_erase_lt {s : Store} {k : Key} {v : Val} (h : Store.get s k = some v) :
    (Store.erase s k).length < s.length := by
  induction s with
  | nil => simp [Store.get] at h
  | cons kv rest ih =>
    obtain ⟨k', v'⟩ := kv
    by_cases hk : k' = k
    · subst hk
      have : (Store.erase ((k', v') :: rest) k').length = (Store.erase rest k').length := by
        simp [Store.erase]
      rw [this]
      have := List.length_filter_le (fun kv : Key × Val => decide (kv.1 ≠ k')) rest
      simp only [Store.erase, List.length_cons]
      omega
    · simp only [Store.get, hk, ↓reduceIte] at h
      have := ih h
      simp only [Store.erase, List.filter_cons, ne_eq, hk, not_false_eq_true, decide_true, ↓reduceIte,
        List.length_cons] at this ⊢
      omega

theorem length_le_of_distinct_keys (c : Cfg) (ids : List Nat) (hnd : ids.Nodup) :
    ∀ (s : Store), (∀ i ∈ ids, (Store.get s (c.treeKey i)).isSome) → ids.length ≤ s.length := by
  induction ids with
  | nil => intro s _; simp
  | cons i ids ih =>
    intro s hs
    rw [List.nodup_cons] at hnd
    have hi := hs i (by simp)
    obtain ⟨v, hv⟩ := Option.isSome_iff_exists.1 hi
    have hlt := Store.length_erase_lt hv
    have := ih hnd.2 (Store.erase s (c.treeKey i)) (by
      intro j hj
      have hne : c.treeKey j ≠ c.treeKey i := fun e => hnd.1 (Cfg.treeKey_inj.1 e ▸ hj)
      rw [Store.get_erase_other _ _ _ hne]
      exact hs j (List.mem_cons_of_mem _ hj))
    simp only [List.length_cons]
    omega

theorem T.depth_le_ids (t : T) : t.depth ≤ t.ids.length + 1 := by
  induction t with
  | leaf i => simp [T.depth]
  | bucket id s => simp [T.depth]
  | node id n l r ihl ihr =>
    simp only [T.depth, T.ids, List.length_cons, List.length_append]
    omega

/-- a held tree with pairwise distinct ids is read back by `reifyRoot`'s fuel -/
theorem reify_of_holds_nodup (c : Cfg) (s : Store) (t : T) (h : Holds c s t) (hnd : t.ids.Nodup) :
    reify c s (s.length + 1) t.ref = some t := by
  apply reify_of_holds c s t h
  have h1 := T.depth_le_ids t
  have h2 := length_le_of_distinct_keys c t.ids hnd s (by
    intro i hi
    rw [← cells_ids] at hi
    obtain ⟨cell, hc, rfl⟩ := List.mem_map.1 hi
    rw [h cell hc]; rfl)
  omega

/-! ## the staged writes of a whole forest -/

section forest
variable (cap : Nat) (D : List Nat)

/-- all puts staged for the forest `ts` -/
def forestPuts (ts : List T) : List (Nat × Val) := ts.flatMap (fun t => (delT cap D t).puts)
/-- all removals staged for the forest `ts` -/
def forestRemoved (ts : List T) : List Nat := ts.flatMap (fun t => (delT cap D t).removed)
/-- the node ids of the new forest -/
def forestNewIds (ts : List T) : List Nat := ts.flatMap (fun t => (delT cap D t).tree.ids)

theorem forestPuts_sub (ts : List T) : ∀ p ∈ forestPuts cap D ts, p.1 ∈ ts.flatMap T.ids := by
  intro p hp
  obtain ⟨t, ht, hp⟩ := List.mem_flatMap.1 hp
  exact List.mem_flatMap.2 ⟨t, ht, (delT_ids_sub cap D t).2.1 p hp⟩

theorem forestRemoved_sub (ts : List T) : ∀ i ∈ forestRemoved cap D ts, i ∈ ts.flatMap T.ids := by
  intro i hi
  obtain ⟨t, ht, hi⟩ := List.mem_flatMap.1 hi
  exact List.mem_flatMap.2 ⟨t, ht, (delT_ids_sub cap D t).2.2 i hi⟩

theorem forestNewIds_sub (ts : List T) : ∀ i ∈ forestNewIds cap D ts, i ∈ ts.flatMap T.ids := by
  intro i hi
  obtain ⟨t, ht, hi⟩ := List.mem_flatMap.1 hi
  exact List.mem_flatMap.2 ⟨t, ht, (delT_ids_sub cap D t).1 i hi⟩

/-- nothing leaks at the forest level: new ids and removed ids together are exactly the old ids -/
theorem forest_ids_perm (ts : List T) :
    (forestNewIds cap D ts ++ forestRemoved cap D ts).Perm (ts.flatMap T.ids) := by
  induction ts with
  | nil => simp [forestNewIds, forestRemoved]
  | cons t ts ih =>
    have ht := delT_ids_perm cap D t
    rw [List.perm_iff_count] at ih ht ⊢
    intro i
    have h1 := ih i
    have h2 := ht i
    simp only [forestNewIds, forestRemoved, List.flatMap_cons, List.count_append] at h1 h2 ⊢
    omega

/-- the concatenated staged writes are adequate for each tree, because the trees' ids are disjoint -/
theorem forest_adequate (c : Cfg) (s : Store) (ts : List T) (hh : ∀ t ∈ ts, Holds c s t)
    (hnd : (ts.flatMap T.ids).Nodup) :
    ∀ t ∈ ts, Adequate c (forestRemoved cap D ts) (forestPuts cap D ts) s (delT cap D t).tree := by
  intro t ht
  obtain ⟨ts₁, ts₂, rfl⟩ := List.append_of_mem ht
  simp only [List.flatMap_append, List.flatMap_cons, List.nodup_append] at hnd
  obtain ⟨_, ⟨tnd, _, dj2⟩, dj1⟩ := hnd
  have sub := (delT_ids_sub cap D t).1
  have hA : ∀ i ∈ ts₁.flatMap T.ids, i ∉ (delT cap D t).tree.ids :=
    fun i hi e => dj1 i hi i (List.mem_append_left _ (sub i e)) rfl
  have hB : ∀ i ∈ ts₂.flatMap T.ids, i ∉ (delT cap D t).tree.ids :=
    fun i hi e => dj2 i (sub i e) i hi rfl
  have := (delT_adequate c cap D t s (hh t ht) tnd).extend (forestPuts cap D ts₁) (forestPuts cap D ts₂)
    (forestRemoved cap D (ts₁ ++ t :: ts₂))
    (fun p hp => hA _ (forestPuts_sub cap D ts₁ p hp))
    (fun p hp => hB _ (forestPuts_sub cap D ts₂ p hp))
    (by
      intro i hi
      simp only [forestRemoved, List.flatMap_append, List.flatMap_cons, List.mem_append] at hi
      rcases hi with hi | hi | hi
      · exact Or.inr (hA _ (forestRemoved_sub cap D ts₁ i hi))
      · exact Or.inl hi
      · exact Or.inr (hB _ (forestRemoved_sub cap D ts₂ i hi)))
  simpa [forestPuts, List.flatMap_append, List.flatMap_cons, List.append_assoc] using this

end forest

/-! ## `delete_items_from_trees` -/

theorem map_some_inj {α : Type} {l l' : List α} (h : l.map some = l'.map some) : l = l' := by
  induction l generalizing l' with
  | nil => cases l' <;> simp_all
  | cons a l ih =>
    cases l' with
    | nil => simp at h
    | cons b l' =>
      simp only [List.map_cons, List.cons.injEq, Option.some.injEq] at h
      rw [h.1, ih h.2]


/-- what `delete_items_from_trees` guarantees, for trees `ts` read at `roots` whose node ids are pairwise
    distinct (inside each tree and across trees) -/
structure DeleteForestSpec (c : Cfg) (cap : Nat) (D : List Nat) (roots : List Nat) (ts : List T)
    (st st' : BState) (roots' : List Nat) : Prop where
  /-- the new roots: the root ids of the new trees, sorted -/
  roots_eq : roots' = IdSet.ofList (ts.map (fun t => (delT cap D t).tree.ref.item))
  /-- the new store holds every new tree -/
  holds : ∀ t ∈ ts, Holds c st'.store (delT cap D t).tree
  /-- node ids of the new forest are pairwise distinct (inside and across trees) -/
  nodup : (forestNewIds cap D ts).Nodup
  /-- new ids ∪ removed ids = old ids, nothing twice -/
  perm : (forestNewIds cap D ts ++ forestRemoved cap D ts).Perm (ts.flatMap T.ids)
  /-- removed ids are not ids of the new forest -/
  disj : ∀ i ∈ forestRemoved cap D ts, i ∉ forestNewIds cap D ts
  /-- removed ids are no longer tree keys of the store -/
  gone : ∀ i ∈ forestRemoved cap D ts, Store.get st'.store (c.treeKey i) = none
  /-- every key that is not a tree key of an old node id is unchanged -/
  frame : ∀ k, (∀ i ∈ ts.flatMap T.ids, k ≠ c.treeKey i) → Store.get st'.store k = Store.get st.store k
  /-- cost: one poll per root, one per visited node, one per write -/
  polls : st'.polls = st.polls + roots.length + (ts.flatMap T.ids).length + (forestRemoved cap D ts).length +
      ((forestPuts cap D ts).filter (fun p => !((forestRemoved cap D ts).contains p.1))).length
  /-- nothing else in the build state moves -/
  rest : st'.cancelAt = st.cancelAt ∧ st'.normals = st.normals ∧ st'.rands = st.rands ∧ st'.batches = st.batches

/-- main lemma, in terms of what `reifyRoot` reads -/
theorem deleteItemsFromTrees_spec_reify (c : Cfg) (o : BuildOpts) (roots : List Nat) (D : List Nat) (ts : List T)
    {st st' : BState} {roots' : List Nat}
    (hr : roots.map (fun root => reify c st.store (st.store.length + 1) (NodeId.mkTree root)) = ts.map some)
    (hnd : (ts.flatMap T.ids).Nodup)
    (h : Build.deleteItemsFromTrees c o roots D st = .ok (roots', st')) :
    DeleteForestSpec c (Build.cap c o) D roots ts st st' roots' := by
  unfold Build.deleteItemsFromTrees at h
  simp only [bind, bind', getStore] at h
  split at h
  · rename_i x s1 hloop
    obtain ⟨ts', hr', hres, e1⟩ := deleteLoop_spec c o D st.store roots hloop
    have : ts' = ts := by
      rw [hr] at hr'
      exact (map_some_inj hr').symm
    subst this
    obtain ⟨r0, puts, removed⟩ := x
    simp only [Prod.mk.injEq] at hres
    obtain ⟨h1, h2, h3⟩ := hres
    split at h
    · rename_i u s2 hwb
      simp only [pure, pure'] at h
      cases h
      obtain ⟨hget, hpolls, hrest⟩ := writeBack_store c removed puts hwb
      have hs1 : s1.store = st.store := by rw [e1]
      rw [hs1] at hget
      have hperm := forest_ids_perm (Build.cap c o) D ts'
      have hn := hperm.nodup_iff.2 hnd
      rw [List.nodup_append] at hn
      obtain ⟨n1, n2, dj⟩ := hn
      have hholds : ∀ t ∈ ts', Holds c st.store t := by
        intro t ht
        obtain ⟨root, _, hroot⟩ := List.mem_map.1 (hr ▸ List.mem_map_of_mem (f := some) ht)
        exact (holds_of_reify c st.store _ _ t hroot).1
      have e2 : puts = forestPuts (Build.cap c o) D ts' := h2
      have e3 : removed = forestRemoved (Build.cap c o) D ts' := h3
      subst e2 e3
      refine ⟨by rw [h1], ?_, n1, hperm, fun i hi hi' => dj i hi' i hi rfl, ?_, ?_, ?_, ?_⟩
      · intro t ht
        have := writeback (forest_adequate (Build.cap c o) D c st.store ts' hholds hnd t ht)
        exact this.frame (fun i _ => hget _)
      · intro i hi
        rw [hget, applyStaged_get_removed _ _ _ _ _ hi]
      · intro k hk
        rw [hget]
        by_cases hex : ∃ i, k = c.treeKey i
        · obtain ⟨i, rfl⟩ := hex
          have hi : i ∉ ts'.flatMap T.ids := fun e => hk i e rfl
          exact applyStaged_get_untouched _ _ _ _ _
            (fun e => hi (forestRemoved_sub _ _ _ i e))
            (fun p hp e => hi (e ▸ forestPuts_sub _ _ _ p hp))
        · exact applyStaged_get_other _ _ _ _ _ (fun i e => hex ⟨i, e⟩)
      · rw [hpolls, e1, length_ofList n2]
      · rw [e1] at hrest; exact hrest
    · cases h
  · cases h

/-- `delete_items_from_trees`, for roots `roots` whose trees `ts` are held by the store, with node ids
    pairwise distinct inside and across trees -/
theorem deleteItemsFromTrees_spec (c : Cfg) (o : BuildOpts) (roots : List Nat) (D : List Nat) (ts : List T)
    {st st' : BState} {roots' : List Nat}
    (hroots : ts.map T.ref = roots.map NodeId.mkTree)
    (hholds : ∀ t ∈ ts, Holds c st.store t)
    (hnd : (ts.flatMap T.ids).Nodup)
    (h : Build.deleteItemsFromTrees c o roots D st = .ok (roots', st')) :
    DeleteForestSpec c (Build.cap c o) D roots ts st st' roots' := by
  apply deleteItemsFromTrees_spec_reify c o roots D ts _ hnd h
  have e : roots.map (fun root => reify c st.store (st.store.length + 1) (NodeId.mkTree root)) =
      (roots.map NodeId.mkTree).map (fun ref => reify c st.store (st.store.length + 1) ref) := by
    rw [List.map_map]; rfl
  rw [e, ← hroots, List.map_map]
  apply List.map_congr_left
  intro t ht
  have tnd : t.ids.Nodup := by
    obtain ⟨ts₁, ts₂, rfl⟩ := List.append_of_mem ht
    simp only [List.flatMap_append, List.flatMap_cons, List.nodup_append] at hnd
    exact hnd.2.1.1
  exact reify_of_holds_nodup c st.store t (hholds t ht) tnd

/-! ## the new roots -/

theorem T.ref_eq_mkTree_of_not_leaf {t : T} (h : ∀ i, t ≠ .leaf i) :
    t.ref = NodeId.mkTree t.ref.item ∧ t.ref.item ∈ t.ids := by
  cases t with
  | leaf i => exact absurd rfl (h i)
  | bucket id s => simp [T.ref, T.ids]
  | node id n l r => simp [T.ref, T.ids]

theorem T.not_leaf_of_ref {t : T} {root : Nat} (h : t.ref = NodeId.mkTree root) : ∀ i, t ≠ .leaf i := by
  rintro i rfl
  have := congrArg NodeId.isItem h
  simp [T.ref] at this

/-- with `1 ≤ cap`, every new root is a tree node (never an item), the new roots are pairwise distinct,
    so the sorted root list has as many entries as before, and each new tree is read back from the new
    store at its root by `reifyRoot` -/
theorem deleteItemsFromTrees_roots (c : Cfg) (o : BuildOpts) (roots : List Nat) (D : List Nat) (ts : List T)
    {st st' : BState} {roots' : List Nat}
    (hcap : 1 ≤ Build.cap c o)
    (hroots : ts.map T.ref = roots.map NodeId.mkTree)
    (hholds : ∀ t ∈ ts, Holds c st.store t)
    (hnd : (ts.flatMap T.ids).Nodup)
    (h : Build.deleteItemsFromTrees c o roots D st = .ok (roots', st')) :
    (ts.map (fun t => (delT (Build.cap c o) D t).tree.ref.item)).Nodup ∧
    roots'.length = roots.length ∧
    ∀ t ∈ ts, (delT (Build.cap c o) D t).tree.ref.item ∈ roots' ∧
      reify c st'.store (st'.store.length + 1) (NodeId.mkTree (delT (Build.cap c o) D t).tree.ref.item)
        = some (delT (Build.cap c o) D t).tree := by
  have spec := deleteItemsFromTrees_spec c o roots D ts hroots hholds hnd h
  have hlen : ts.length = roots.length := by
    have := congrArg List.length hroots; simpa using this
  have hnl : ∀ t ∈ ts, ∀ i, (delT (Build.cap c o) D t).tree ≠ .leaf i := by
    intro t ht
    obtain ⟨root, _, hroot⟩ := List.mem_map.1 (hroots ▸ List.mem_map_of_mem (f := T.ref) ht)
    exact delT_ref_tree hcap (T.not_leaf_of_ref hroot.symm)
  have hnodup : (ts.map (fun t => (delT (Build.cap c o) D t).tree.ref.item)).Nodup := by
    have hn := spec.nodup
    unfold forestNewIds at hn
    clear spec hroots hholds hnd h hlen
    induction ts with
    | nil => simp
    | cons t ts ih =>
      simp only [List.flatMap_cons, List.nodup_append] at hn
      simp only [List.map_cons, List.nodup_cons, List.mem_map, not_exists, not_and]
      refine ⟨?_, ih (fun t' ht' => hnl t' (List.mem_cons_of_mem _ ht')) hn.2.1⟩
      intro t' ht' e
      have h1 := (T.ref_eq_mkTree_of_not_leaf (hnl t (by simp))).2
      have h2 := (T.ref_eq_mkTree_of_not_leaf (hnl t' (List.mem_cons_of_mem _ ht'))).2
      rw [e] at h2
      exact hn.2.2 _ h1 _ (List.mem_flatMap.2 ⟨t', ht', h2⟩) rfl
  refine ⟨hnodup, ?_, ?_⟩
  · rw [spec.roots_eq, length_ofList hnodup, List.length_map, hlen]
  · intro t ht
    refine ⟨?_, ?_⟩
    · rw [spec.roots_eq, mem_ofList]
      exact List.mem_map_of_mem (f := fun t => (delT (Build.cap c o) D t).tree.ref.item) ht
    · have tnd : (delT (Build.cap c o) D t).tree.ids.Nodup := by
        have hn := spec.nodup
        unfold forestNewIds at hn
        obtain ⟨ts₁, ts₂, rfl⟩ := List.append_of_mem ht
        simp only [List.flatMap_append, List.flatMap_cons, List.nodup_append] at hn
        exact hn.2.1.1
      have := reify_of_holds_nodup c st'.store _ (spec.holds t ht) tnd
      rwa [(T.ref_eq_mkTree_of_not_leaf (hnl t ht)).1] at this

/-! ## without cancellation `delete_items_from_trees` succeeds -/

theorem reifyRoot_of_reify {c : Cfg} {s : Store} {root : Nat} {t : T}
    (h : reify c s (s.length + 1) (NodeId.mkTree root) = some t) (st : BState) :
    Build.reifyRoot c s root st = .ok (t, st) := by
  unfold Build.reifyRoot; rw [h]; rfl

theorem deleteLoop_ok_of_none (c : Cfg) (o : BuildOpts) (D : List Nat) (s : Store) (roots : List Nat) :
    ∀ (ts : List T) (st : BState),
    roots.map (fun root => reify c s (s.length + 1) (NodeId.mkTree root)) = ts.map some →
    st.cancelAt = none → ∃ res st', Build.deleteLoop c o D s roots st = .ok (res, st') := by
  induction roots with
  | nil => intro ts st _ _; exact ⟨_, _, rfl⟩
  | cons root rest ih =>
    intro ts st hr hc
    cases ts with
    | nil => simp at hr
    | cons t ts =>
      simp only [List.map_cons, List.cons.injEq] at hr
      simp only [Build.deleteLoop, bind, bind', poll_ok_of_none hc, reifyRoot_of_reify hr.1]
      rw [pollN_ok_of_none (by exact hc)]
      simp only
      obtain ⟨res, st', h⟩ := ih ts { st with polls := st.polls + 1 + (delT (Build.cap c o) D t).polls } hr.2 hc
      rw [h]
      exact ⟨_, _, rfl⟩

theorem deleteItemsFromTrees_ok_of_none (c : Cfg) (o : BuildOpts) (roots : List Nat) (D : List Nat) (ts : List T)
    {st : BState}
    (hroots : ts.map T.ref = roots.map NodeId.mkTree)
    (hholds : ∀ t ∈ ts, Holds c st.store t)
    (hnd : (ts.flatMap T.ids).Nodup)
    (hc : st.cancelAt = none) :
    ∃ roots' st', Build.deleteItemsFromTrees c o roots D st = .ok (roots', st') := by
  have hr : roots.map (fun root => reify c st.store (st.store.length + 1) (NodeId.mkTree root)) = ts.map some := by
    have e : roots.map (fun root => reify c st.store (st.store.length + 1) (NodeId.mkTree root)) =
        (roots.map NodeId.mkTree).map (fun ref => reify c st.store (st.store.length + 1) ref) := by
      rw [List.map_map]; rfl
    rw [e, ← hroots, List.map_map]
    apply List.map_congr_left
    intro t ht
    have tnd : t.ids.Nodup := by
      obtain ⟨ts₁, ts₂, rfl⟩ := List.append_of_mem ht
      simp only [List.flatMap_append, List.flatMap_cons, List.nodup_append] at hnd
      exact hnd.2.1.1
    exact reify_of_holds_nodup c st.store t (hholds t ht) tnd
  obtain ⟨res, s1, hloop⟩ := deleteLoop_ok_of_none c o D st.store roots ts st hr hc
  obtain ⟨_, _, _, e1⟩ := deleteLoop_spec c o D st.store roots hloop
  obtain ⟨r0, puts, removed⟩ := res
  obtain ⟨s2, hwb⟩ := writeBack_ok_of_none c removed puts id (st := s1) (by rw [e1]; exact hc)
  unfold Build.deleteItemsFromTrees
  simp only [bind, bind', getStore, hloop, hwb, pure, pure']
  exact ⟨_, _, rfl⟩

/-! ## non-vacuity: a concrete forest satisfying the hypotheses -/

namespace DeleteForestExample
def c : Cfg := { index := 0, metric := .euclidean, dims := 2 }
def o : BuildOpts := { splitAfter := some 2 }
def t0 : T := .node 0 [1, 2] (.bucket 1 [1, 2]) (.node 2 [3, 4] (.leaf 3) (.bucket 4 [4, 5, 6]))
def t1 : T := .bucket 7 [1, 2, 3, 4, 5, 6]
def store : Store :=
  ((((Store.put [] (c.treeKey 0) (.split (NodeId.mkTree 1) (NodeId.mkTree 2) [1, 2])).put
    (c.treeKey 1) (.desc [1, 2])).put
    (c.treeKey 2) (.split (NodeId.mkItem 3) (NodeId.mkTree 4) [3, 4])).put
    (c.treeKey 4) (.desc [4, 5, 6])).put
    (c.treeKey 7) (.desc [1, 2, 3, 4, 5, 6])
def st : BState := { store := store }

example : [t0, t1].map T.ref = [0, 7].map NodeId.mkTree := by decide
example : ∀ t ∈ [t0, t1], Holds c st.store t := by unfold Holds; decide
example : ([t0, t1].flatMap T.ids).Nodup := by decide
example : 1 ≤ Build.cap c o := by decide
example : Sorted [2, 3, 5] ∧ t0.WF ∧ t1.WF := by simp [t0, t1, T.WF, Sorted]
example : ∃ roots' st', Build.deleteItemsFromTrees c o [0, 7] [2, 3, 5] st = .ok (roots', st') :=
  deleteItemsFromTrees_ok_of_none c o [0, 7] [2, 3, 5] [t0, t1] (by decide) (by unfold Holds; decide) (by decide) rfl
/-- the right subtree of `t0` collapses into a bucket (two live items), the split above it stays -/
example : (delT 2 [2, 3, 5] t0).tree = .node 0 [1, 2] (.bucket 1 [1]) (.bucket 2 [4, 6]) ∧
    (delT 2 [2, 3, 5] t0).removed = [4] := by decide +kernel
end DeleteForestExample

end Arroy
