import ArroyProofs.F32Chk
/-! The rounding-error bounds for the dispatching distance functions of the model (`dotProduct`,
`euclideanDistance`, `manhattanDistance` on binary32 bit patterns), under the decidable condition that
the instrumented run raises no flag. -/
namespace Arroy
namespace SFR
open SF Kernel KernelRound Generated

/-- `dotProduct` over an arbitrary arithmetic (same dispatch) -/
def dotProductG {α : Type} (A : Arith α) (h : Host) (u v : List α) : α :=
  if h.avx && h.fma && decide (u.length ≥ minDimAvx) then Kernel.dotAvx A u v
  else if h.sse && decide (u.length ≥ minDimSimd) then Kernel.dotSse A u v
  else Kernel.dotScalar A u v

/-- `euclideanDistance` over an arbitrary arithmetic (same dispatch) -/
def euclideanDistanceG {α : Type} (A : Arith α) (h : Host) (u v : List α) : α :=
  if h.avx && h.fma && decide (u.length ≥ minDimAvx) then Kernel.euclidAvx A u v
  else if h.sse && decide (u.length ≥ minDimSimd) then Kernel.euclidSse A u v
  else Kernel.euclidScalar A u v

theorem dotProduct_eq (h : Host) (u v : List Nat) : dotProduct h u v = dotProductG f32Arith h u v := rfl
theorem euclideanDistance_eq (h : Host) (u v : List Nat) :
    euclideanDistance h u v = euclideanDistanceG f32Arith h u v := rfl

/-- number of roundings on the longest path of the dot product the dispatch selects -/
def dotDepth (h : Host) (n : Nat) : Nat :=
  if h.avx && h.fma && decide (n ≥ minDimAvx) then n / 32 + n % 32 + 7
  else if h.sse && decide (n ≥ minDimSimd) then n / 16 + n % 16 + 6
  else n + 1

/-- … of the squared Euclidean distance -/
def euclidDepth (h : Host) (n : Nat) : Nat :=
  if h.avx && h.fma && decide (n ≥ minDimAvx) then n / 32 + n % 32 + 9
  else if h.sse && decide (n ≥ minDimSimd) then n / 16 + n % 16 + 8
  else n + 3

theorem dotDepth_le (h : Host) (n : Nat) : dotDepth h n ≤ n + 1 := by
  unfold dotDepth minDimAvx minDimSimd
  split
  · rename_i hc
    simp only [Bool.and_eq_true, decide_eq_true_eq] at hc
    have := Nat.div_add_mod n 32
    omega
  · split
    · rename_i _ hc
      simp only [Bool.and_eq_true, decide_eq_true_eq] at hc
      have := Nat.div_add_mod n 16
      omega
    · omega

theorem euclidDepth_le (h : Host) (n : Nat) : euclidDepth h n ≤ n + 3 := by
  unfold euclidDepth minDimAvx minDimSimd
  split
  · rename_i hc
    simp only [Bool.and_eq_true, decide_eq_true_eq] at hc
    have := Nat.div_add_mod n 32
    omega
  · split
    · rename_i _ hc
      simp only [Bool.and_eq_true, decide_eq_true_eq] at hc
      have := Nat.div_add_mod n 16
      omega
    · omega

theorem dotProduct_round (h : Host) (x y : List Nat) (hl : x.length = y.length)
    (hrun : (dotProductG f32Chk h (chkIn x) (chkIn y)).2 = true) :
    |toReal (dotProduct h x y) - (List.zipWith (fun a b => toReal a * toReal b) x y).sum|
      ≤ ((1 + u)^(dotDepth h x.length) - 1)
        * ((List.zipWith (fun a b => toReal a * toReal b) x y).map (fun z => |z|)).sum := by
  rw [dotProduct_eq]
  unfold dotProductG dotDepth at *
  rw [chkIn_length] at hrun
  split
  · rename_i hc
    rw [if_pos hc] at hrun
    exact dotAvx_round_chk f32_chk_model x y hl hrun
  · rename_i hc
    rw [if_neg hc] at hrun
    split
    · rename_i hc2
      rw [if_pos hc2] at hrun
      exact dotSse_round_chk f32_chk_model x y hl hrun
    · rename_i hc2
      rw [if_neg hc2] at hrun
      exact dotScalar_round_chk f32_chk_model x y x.length rfl hl.symm hrun

theorem euclideanDistance_round (h : Host) (x y : List Nat) (hl : x.length = y.length)
    (hrun : (euclideanDistanceG f32Chk h (chkIn x) (chkIn y)).2 = true) :
    |toReal (euclideanDistance h x y)
        - (List.zipWith (fun a b => (toReal a - toReal b) * (toReal a - toReal b)) x y).sum|
      ≤ ((1 + u)^(euclidDepth h x.length) - 1)
        * ((List.zipWith (fun a b => (toReal a - toReal b) * (toReal a - toReal b)) x y).map
            (fun z => |z|)).sum := by
  rw [euclideanDistance_eq]
  unfold euclideanDistanceG euclidDepth at *
  rw [chkIn_length] at hrun
  split
  · rename_i hc
    rw [if_pos hc] at hrun
    exact euclidAvx_round_chk f32_chk_model x y hl hrun
  · rename_i hc
    rw [if_neg hc] at hrun
    split
    · rename_i hc2
      rw [if_pos hc2] at hrun
      exact euclidSse_round_chk f32_chk_model x y hl hrun
    · rename_i hc2
      rw [if_neg hc2] at hrun
      exact euclidScalar_round_chk f32_chk_model x y x.length rfl hl.symm hrun

theorem manhattanDistance_round (x y : List Nat) (hl : x.length = y.length)
    (hrun : (manhattanWith f32Chk (fun c => (F32.abs c.1, c.2)) (chkIn x) (chkIn y)).2 = true) :
    |toReal (manhattanDistance x y) - (List.zipWith (fun a b => |toReal a - toReal b|) x y).sum|
      ≤ ((1 + u)^(x.length + 1) - 1)
        * ((List.zipWith (fun a b => |toReal a - toReal b|) x y).map (fun z => |z|)).sum :=
  manhattan_round_chk f32_chk_model F32.abs f32_abs_chk x y x.length rfl hl.symm hrun

/-- `(1+u)^k − 1` is monotone in `k` -/
theorem pow_sub_one_mono {k k' : Nat} (h : k ≤ k') : (1 + u)^k - 1 ≤ (1 + u)^k' - 1 :=
  E_mono u_nonneg h

end SFR
end Arroy
