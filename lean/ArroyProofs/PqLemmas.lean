import ArroyProofs.OrdLemmas
/-! Order facts about the priorities of the traversal queue (`Metric.pqDistance`): `F32.min`, `F32.neg`,
`F32.lt` on non-NaN values, all proved from the soft-float definitions through the keys of `OrdLemmas`;
the queue order `entryLt` and the maximality of what `popMax` returns. -/
namespace Arroy
namespace SF

theorem ltV_nan_left (y : V) : ltV .nan y = false := by cases y <;> rfl
theorem ltV_nan_right (x : V) : ltV x .nan = false := by cases x <;> rfl

/-- a strict comparison that holds involves no NaN -/
theorem lt_notNaN (f : Fmt) (a b : Nat) (h : lt f a b = true) : isNaN f a = false ∧ isNaN f b = false := by
  unfold lt at h
  unfold isNaN
  cases ha : unpack f a <;> cases hb : unpack f b <;> simp_all [ltV]

end SF

namespace F32

theorem lt_notNaN {a b : Nat} (h : lt a b = true) : isNaN a = false ∧ isNaN b = false :=
  SF.lt_notNaN _ a b h

theorem lt_iff_key {a b : Nat} (ha : isNaN a = false) (hb : isNaN b = false) :
    lt a b = true ↔ SF.klt (key a) (key b) := SF.lt_iff_of_notNaN _ a b ha hb

theorem key_zero : key zero = (0, 0) := by decide
theorem isNaN_zero : isNaN zero = false := by decide
theorem isNaN_inf : isNaN inf = false := by decide
theorem lt_zero_inf : lt zero inf = true := by decide

/-- positive: strictly greater than zero (hence not NaN) -/
theorem pos_iff_key {p : Nat} (hp : isNaN p = false) :
    lt zero p = true ↔ (0 < (key p).1 ∨ ((key p).1 = 0 ∧ 0 < (key p).2)) := by
  rw [lt_iff_key isNaN_zero hp, key_zero]; unfold SF.klt
  constructor <;> (intro h; simp only at h ⊢; omega)

theorem neg_iff_key {p : Nat} (hp : isNaN p = false) :
    lt p zero = true ↔ ((key p).1 < 0 ∨ ((key p).1 = 0 ∧ (key p).2 < 0)) := by
  rw [lt_iff_key hp isNaN_zero, key_zero]; unfold SF.klt
  constructor <;> (intro h; simp only at h ⊢; omega)

theorem lt_asymm {a b : Nat} (h : lt a b = true) : lt b a = false := by
  obtain ⟨ha, hb⟩ := lt_notNaN h
  cases h' : lt b a
  · rfl
  · rw [lt_iff_key ha hb] at h; rw [lt_iff_key hb ha] at h'; unfold SF.klt at h h'; omega

theorem lt_irrefl (a : Nat) : lt a a = false := by
  cases h : lt a a
  · rfl
  · have := lt_asymm h; rw [h] at this; cases this

/-- on non-NaN values `ordLt` is `lt` -/
theorem ordLt_eq_lt {a b : Nat} (ha : isNaN a = false) (hb : isNaN b = false) : ordLt a b = lt a b := by
  simp only [ordLt, SF.ordLt, isNaN] at *; simp [ha, hb, lt]

/-! ### `F32.min` (Rust's `f32::min`) on non-NaN values -/

theorem min_eq {a b : Nat} (ha : isNaN a = false) (hb : isNaN b = false) :
    F32.min a b = if lt b a = true then b else a := by
  simp only [F32.min, SF.min, isNaN] at *
  simp only [ha, hb, Bool.false_eq_true, if_false]
  rfl

theorem min_notNaN {a b : Nat} (ha : isNaN a = false) (hb : isNaN b = false) : isNaN (F32.min a b) = false := by
  rw [min_eq ha hb]; split <;> assumption

/-- the minimum is positive iff both are -/
theorem pos_min {a b : Nat} (ha : isNaN a = false) (hb : isNaN b = false) :
    lt zero (F32.min a b) = true ↔ (lt zero a = true ∧ lt zero b = true) := by
  rw [min_eq ha hb]
  split
  · rename_i h
    rw [lt_iff_key hb ha] at h
    rw [pos_iff_key ha, pos_iff_key hb]; unfold SF.klt at h; omega
  · rename_i h
    have h' : ¬ SF.klt (key b) (key a) := by rw [← lt_iff_key hb ha]; exact h
    rw [pos_iff_key ha, pos_iff_key hb]; unfold SF.klt at h'; omega

/-! ### `F32.neg` flips the sign bit -/

theorem unpack_neg (a : Nat) : SF.unpack SF.f32 (SF.neg SF.f32 a) = SF.negV (SF.unpack SF.f32 a) := by
  have hw : SF.f32.width - 1 = 31 := rfl
  have hp : SF.f32.p - 1 = 23 := rfl
  have he : SF.f32.ebits = 8 := rfl
  unfold SF.neg
  rw [hw]
  by_cases hs : a / 2 ^ 31 % 2 = 1
  · have hs' : (a / 2 ^ 31 % 2 == 1) = true := by simp [hs]
    simp only [hs', if_true]
    have h1 : (a - 2 ^ 31) % 2 ^ 23 = a % 2 ^ 23 := by omega
    have h2 : (a - 2 ^ 31) / 2 ^ 23 % 2 ^ 8 = a / 2 ^ 23 % 2 ^ 8 := by omega
    have h3 : (a - 2 ^ 31) / 2 ^ 31 % 2 = 0 := by omega
    unfold SF.unpack
    simp only [hw, hp, he, h1, h2, h3, hs]
    split
    · split <;> simp [SF.negV]
    · split <;> simp [SF.negV]
  · have hs' : (a / 2 ^ 31 % 2 == 1) = false := by simp [hs]
    simp only [hs', Bool.false_eq_true, if_false]
    have hs0 : a / 2 ^ 31 % 2 = 0 := by omega
    have h1 : (a + 2 ^ 31) % 2 ^ 23 = a % 2 ^ 23 := by omega
    have h2 : (a + 2 ^ 31) / 2 ^ 23 % 2 ^ 8 = a / 2 ^ 23 % 2 ^ 8 := by omega
    have h3 : (a + 2 ^ 31) / 2 ^ 31 % 2 = 1 := by omega
    unfold SF.unpack
    simp only [hw, hp, he, h1, h2, h3, hs0]
    split
    · split <;> simp [SF.negV]
    · split <;> simp [SF.negV]

theorem isNaN_neg (a : Nat) : isNaN (neg a) = isNaN a := by
  simp only [isNaN, SF.isNaN, neg, fmt, unpack_neg]
  cases SF.unpack SF.f32 a <;> rfl

theorem cls_negV (x : SF.V) (h : x.notNaN) : (SF.negV x).cls = - x.cls := by
  cases x with
  | nan => exact absurd h id
  | inf b => cases b <;> rfl
  | fin n m e => rfl

theorem mag_negV (q : Int) (x : SF.V) : (SF.negV x).mag q = - x.mag q := by
  cases x with
  | nan => rfl
  | inf b => rfl
  | fin n m e => cases n <;> simp [SF.negV, SF.V.mag]

theorem key_neg {a : Nat} (ha : isNaN a = false) : key (neg a) = (-(key a).1, -(key a).2) := by
  have hn := (SF.isNaN_false_iff SF.f32 a).1 ha
  simp only [key, SF.key, neg, fmt, unpack_neg]
  rw [cls_negV _ hn, mag_negV]

/-- `-m` is positive iff `m` is negative -/
theorem pos_neg {a : Nat} (ha : isNaN a = false) : lt zero (neg a) = true ↔ lt a zero = true := by
  have hn : isNaN (neg a) = false := by rw [isNaN_neg]; exact ha
  rw [pos_iff_key hn, neg_iff_key ha, key_neg ha]
  simp only; omega

end F32

namespace Reader

/-- key of a queue entry: float key, then the node id (mode, item) -/
def ekey (a : Nat × NodeId) : Int × Int × Nat × Nat := ((F32.key a.1).1, (F32.key a.1).2, a.2.mode, a.2.item)

def elt (x y : Int × Int × Nat × Nat) : Prop :=
  x.1 < y.1 ∨ (x.1 = y.1 ∧ (x.2.1 < y.2.1 ∨ (x.2.1 = y.2.1 ∧
    (x.2.2.1 < y.2.2.1 ∨ (x.2.2.1 = y.2.2.1 ∧ x.2.2.2 < y.2.2.2)))))

theorem entryLt_iff (a b : Nat × NodeId) : entryLt a b = true ↔ elt (ekey a) (ekey b) := by
  unfold entryLt elt ekey NodeId.lt
  simp only [Bool.or_eq_true, Bool.and_eq_true, decide_eq_true_eq, beq_iff_eq]
  rw [F32.ordLt_iff, F32.ordEq_iff]
  unfold SF.klt
  constructor
  · rintro (h | ⟨h, h'⟩)
    · omega
    · rw [h]; omega
  · intro h
    by_cases hk : F32.key a.1 = F32.key b.1
    · right; refine ⟨hk, ?_⟩; rw [hk] at h; omega
    · have : ¬ ((F32.key a.1).1 = (F32.key b.1).1 ∧ (F32.key a.1).2 = (F32.key b.1).2) :=
        fun ⟨x, y⟩ => hk (Prod.ext x y)
      left; omega

theorem entryLt_irrefl (a : Nat × NodeId) : entryLt a a = false := by
  cases h : entryLt a a
  · rfl
  · rw [entryLt_iff] at h; unfold elt at h; omega

theorem entryLt_trans {a b c : Nat × NodeId} (h1 : entryLt a b = true) (h2 : entryLt b c = true) :
    entryLt a c = true := by
  rw [entryLt_iff] at *; unfold elt at *; omega

/-- what `popMax` pops is a maximum of the queue -/
theorem popMax_max : ∀ (l : List (Nat × NodeId)) (m : Nat × NodeId) (rest : List (Nat × NodeId)),
    popMax l = some (m, rest) → ∀ e ∈ l, entryLt m e = false
  | [], _, _, h => by simp [popMax] at h
  | x :: xs, m, rest, h => by
    simp only [popMax] at h
    cases hp : popMax xs with
    | none =>
      rw [hp] at h
      simp only [Option.some.injEq, Prod.mk.injEq] at h
      obtain ⟨rfl, _⟩ := h
      have hxs : xs = [] := by
        cases xs with
        | nil => rfl
        | cons y ys =>
          simp only [popMax] at hp
          split at hp
          · cases hp
          · split at hp <;> cases hp
      subst hxs
      intro e he
      simp only [List.mem_singleton] at he
      subst he; exact entryLt_irrefl _
    | some mr =>
      obtain ⟨m', rest'⟩ := mr
      rw [hp] at h
      have ih := popMax_max xs m' rest' hp
      simp only at h
      split at h
      · rename_i hlt
        simp only [Option.some.injEq, Prod.mk.injEq] at h
        obtain ⟨rfl, _⟩ := h
        intro e he
        rcases List.mem_cons.1 he with rfl | he
        · exact entryLt_irrefl _
        · cases h' : entryLt x e
          · rfl
          · have := entryLt_trans hlt h'; rw [ih e he] at this; cases this
      · rename_i hlt
        simp only [Option.some.injEq, Prod.mk.injEq] at h
        obtain ⟨rfl, _⟩ := h
        intro e he
        rcases List.mem_cons.1 he with rfl | he
        · simpa using hlt
        · exact ih e he

/-- a popped maximum is positive as soon as some queued non-NaN... entry is positive (all priorities non-NaN) -/
theorem pos_of_max {m g : Nat × NodeId} (hm : F32.isNaN m.1 = false) (hg : F32.lt F32.zero g.1 = true)
    (hmax : entryLt m g = false) : F32.lt F32.zero m.1 = true := by
  have hgn := (F32.lt_notNaN hg).2
  have h1 : F32.ordLt m.1 g.1 = false := by
    unfold entryLt at hmax
    simp only [Bool.or_eq_false_iff] at hmax
    exact hmax.1
  have h0 : F32.ordLt F32.zero g.1 = true := by rw [F32.ordLt_eq_lt F32.isNaN_zero hgn]; exact hg
  rw [← F32.ordLt_eq_lt F32.isNaN_zero hm]
  rcases F32.ord_total m.1 g.1 with h | h | h
  · rw [h1] at h; cases h
  · exact F32.ordLt_of_ordEq_right h0 (F32.ordEq_symm h)
  · exact F32.ordLt_trans h0 h

end Reader
end Arroy
