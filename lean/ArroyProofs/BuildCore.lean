import ArroyProofs.AfterUsed
/-! `build` on a store whose index is unbuilt or holds a valid forest with complete marks, for a run
without cancellation schedule: the result is a valid forest over the stored items. -/
namespace Arroy
open BuildM Generated IdSet Transp

/-- what a build starts from: the forest of the last build (empty if there is none) and marks that
    account for every difference between its items and the stored items -/
structure Old (c : Cfg) (s : Store) (roots items : List Nat) (ts : List T) : Prop where
  forest : Forest c s roots items ts
  roots_eq : rootsOf c s = roots
  marks : MarksComplete c s items

/-- the id generator hypothesis of the top-level theorems (`ConcurrentNodeIds::new` on the used
    tree ids hands out fresh 32-bit ids; proved as part of C13) -/
def FreshSupply : Prop :=
  ∀ used : List Nat, IdSet.Sorted used → (∀ i ∈ used, i < 4294967296) → GenOK used (IdGen.new used)

theorem Old.of_inv {c : Cfg} {s : Store} (h : IndexInvW c s) (hi : c.index < 65536) :
    ∃ roots items ts, Old c s roots items ts := by
  obtain ⟨_, hw, _, hb⟩ := h
  rcases hb with ⟨hm, ht⟩ | ⟨name, dims, items, roots, hm, _, ⟨ts, f⟩, hmarks⟩
  · refine ⟨[], s.keysOf c.index modeItem, [], Forest.nil ht _, by simp [rootsOf, hm], ?_⟩
    intro id _
    exact Store.mem_keysOf_iff hw _ _ _ hi (by decide)
  · exact ⟨roots, items, ts, f, by simp [rootsOf, hm], hmarks⟩

theorem vecOf_congr {c : Cfg} {s s' : Store} {id : Nat}
    (h : Store.get s' (c.itemKey id) = Store.get s (c.itemKey id)) : vecOf c s' id = vecOf c s id := by
  simp only [vecOf, h]

theorem rootsOf_congr {c : Cfg} {s s' : Store} (h : Store.get s' c.metaKey = Store.get s c.metaKey) :
    rootsOf c s' = rootsOf c s := by
  simp only [rootsOf, h]

/-- the outcome of a successful build (`items`: the stored item ids) -/
structure BuildOut (c : Cfg) (o : BuildOpts) (s s' : Store) (roots0 : List Nat) (ts0 : List T)
    (roots' : List Nat) (ts' : List T) : Prop where
  metadata : Store.get s' c.metaKey =
    some (.metadata c.metric.nameBytes c.dims (s.keysOf c.index modeItem) roots')
  forest : Forest c s' roots' (s.keysOf c.index modeItem) ts'
  step : StoreStep c s s'
  no_marks : ∀ id, Store.get s' (c.updatedKey id) = none
  vec : ∀ id, vecOf c s' id = vecOf c s id
  present : ∀ id, (Store.get s' (c.itemKey id)).isSome = (Store.get s (c.itemKey id)).isSome
  other : ∀ k : Key, k.index ≠ c.index → Store.get s' k = Store.get s k
  single : fits (Build.cap c o) (s.keysOf c.index modeItem).length = true →
    roots' = (if (s.keysOf c.index modeItem).isEmpty then [] else [0]) ∧
    ts' = (if (s.keysOf c.index modeItem).isEmpty then [] else [.bucket 0 (s.keysOf c.index modeItem)])
  count : fits (Build.cap c o) (s.keysOf c.index modeItem).length = false →
    roots'.length = Build.targetNTrees o c.dims (s.keysOf c.index modeItem).length roots0.length
  routed : (∀ t ∈ ts0, RoutedD (Build.treeCtx c o s).isZero
      (maskSide (s.keysOf c.index modeUpdated) (sideD (Build.treeCtx c o s))) t) →
    ∀ t ∈ ts', RoutedT (Build.treeCtx c o s) t
  capacity : (∀ t ∈ ts0, ∀ bk ∈ t.buckets, bk.2.length ≤ Build.cap c o) →
    ∀ t ∈ ts', ∀ bk ∈ t.buckets, bk.2.length ≤ Build.cap c o

theorem build_core (c : Cfg) (o : BuildOpts) (fuel : Nat) (st st' : BState) (roots0 items0 : List Nat) (ts0 : List T)
    (hi : c.index < 65536) (hcap : 1 ≤ Build.cap c o)
    (hs : Store.Sorted st.store) (hw : Store.WF st.store)
    (old : Old c st.store roots0 items0 ts0) (hnone : st.cancelAt = none) (hfresh : FreshSupply)
    (h : Build.build c o fuel st = .ok ((), st')) :
    ∃ roots' ts', BuildOut c o st.store st'.store roots0 ts0 roots' ts' := by
  rw [build_eq] at h
  obtain ⟨u1, st1, h1, k1⟩ := bind'_ok_inv h
  clear h
  obtain ⟨kept1, c1⟩ := preProcessItems_spec c h1 hs hw hi
  have hs1 := kept1.step.sorted hs
  have hw1 := kept1.step.wf hw
  obtain ⟨items, st2, h2, k2⟩ := bind'_ok_inv k1
  clear k1
  obtain ⟨e2a, e2b, c2⟩ := itemIndices_spec c h2
  obtain ⟨updated, st3, h3, k3⟩ := bind'_ok_inv k2
  clear k2
  obtain ⟨e3a, e3b, c3⟩ := resetUpdated_spec c h3
  rw [e2b] at e3a e3b
  have hitems : items = st.store.keysOf c.index modeItem := by rw [e2a, kept1.keysOf_item hs hw hi]
  have hupdated : updated = st.store.keysOf c.index modeUpdated := by rw [e3a, kept1.keysOf_updated hs hw hi]
  have hmarks := eraseMarks_all c st1.store hw1 hi
  rw [← e3a, ← e3b] at hmarks
  obtain ⟨marks_none, marks_other⟩ := hmarks
  have step03 : StoreStep c st.store st3.store := by
    rw [e3b]; exact eraseMarks_step c kept1.step _
  have hw3 := step03.wf hw
  have htree3 : ∀ i, Store.get st3.store (c.treeKey i) = Store.get st.store (c.treeKey i) := by
    intro i
    rw [marks_other _ (fun id => Ne.symm (c.updatedKey_ne_treeKey id i)), kept1.tree]
  have hmeta3 : Store.get st3.store c.metaKey = Store.get st.store c.metaKey := by
    rw [marks_other _ (fun id => c.metaKey_ne_updatedKey c id), kept1.meta]
  have hitem3 : ∀ id, Store.get st3.store (c.itemKey id) = Store.get st1.store (c.itemKey id) :=
    fun id => marks_other _ (fun id' => c.itemKey_ne_updatedKey c id' id)
  have hother3 : ∀ k : Key, k.index ≠ c.index → Store.get st3.store k = Store.get st.store k := by
    intro k hk
    rw [marks_other k (fun id e => hk (by rw [e]; rfl)), kept1.other k (Or.inl hk)]
  have hsitems : Sorted items := by rw [hitems]; exact Store.keysOf_sorted hs hw _ _ hi (by decide)
  have hsupd : Sorted updated := by rw [hupdated]; exact Store.keysOf_sorted hs hw _ _ hi (by decide)
  have hcancel3 : st3.cancelAt = none := by rw [c3, c2, c1, hnone]
  subst hitems
  split at k3
  · -- the index fits in one bucket
    rename_i hfit
    obtain ⟨sstep, smeta, sother, sforest⟩ := singleLeaf_spec c _ hw3 hi hsitems k3
    refine ⟨_, _, ⟨smeta, sforest, step03.trans sstep, ?_, ?_, ?_, ?_, fun _ => ⟨rfl, rfl⟩, ?_, ?_, ?_⟩⟩
    · intro id
      rw [sother _ (fun i => c.updatedKey_ne_treeKey id i) (Ne.symm (c.metaKey_ne_updatedKey c id))
        (Ne.symm (c.versionKey_ne_updatedKey id))]
      exact marks_none id
    · intro id
      rw [← kept1.vec id]
      apply vecOf_congr
      rw [sother _ (fun i => c.itemKey_ne_treeKey id i) (Ne.symm (c.metaKey_ne_itemKey c id))
        (Ne.symm (c.versionKey_ne_itemKey id)), hitem3]
    · intro id
      rw [sother _ (fun i => c.itemKey_ne_treeKey id i) (Ne.symm (c.metaKey_ne_itemKey c id))
        (Ne.symm (c.versionKey_ne_itemKey id)), hitem3, kept1.present]
    · intro k hk
      rw [sother k (fun i e => hk (by rw [e]; rfl)) (fun e => hk (by rw [e]; rfl)) (fun e => hk (by rw [e]; rfl))]
      exact hother3 k hk
    · intro hnf; rw [hfit] at hnf; cases hnf
    · intro _ t ht
      split at ht
      · cases ht
      · simp only [List.mem_singleton] at ht
        subst ht; trivial
    · intro _ t ht bk hbk
      split at ht
      · cases ht
      · simp only [List.mem_singleton] at ht
        subst ht
        simp only [T.buckets, List.mem_singleton] at hbk
        subst hbk
        simpa [fits] using hfit
  · -- the main path
    rename_i hfit
    obtain ⟨s, st4, h4, k4⟩ := bind'_ok_inv k3
    clear k3
    obtain ⟨rfl, rfl⟩ := getStore_ok' h4
    obtain ⟨used, st5, h5, k5⟩ := bind'_ok_inv k4
    clear k4
    have hns : ¬ Swallows c st3 := by
      rintro ⟨n, hn, _⟩
      rw [hcancel3] at hn; cases hn
    rw [usedTreeNode_noswallow c hns] at h5
    simp only [Except.ok.injEq, Prod.mk.injEq] at h5
    obtain ⟨hused_eq, hst5⟩ := h5
    have hst5s : st5.store = st3.store := by rw [← hst5]
    subst hused_eq
    have hroots : rootsOf c st3.store = roots0 := by rw [rootsOf_congr hmeta3, old.roots_eq]
    rw [hroots] at k5
    have hused_lt : ∀ i ∈ st3.store.keysOf c.index modeTree, i < 4294967296 := by
      intro i hi'
      rw [Store.mem_keysOf_iff hw3 _ _ _ hi (by decide)] at hi'
      exact lt_of_isSome_tree hw3 hi'
    obtain ⟨roots', ts', a1, a2, a3, a4, a5, a6, a7⟩ :=
      afterUsed_spec c o fuel _ updated roots0 _ items0 ts0 st5 st' hi hcap (by rw [hst5s]; exact hw3)
        (by rw [hst5s]; exact old.forest.frame htree3) hsitems hsupd
        (by
          intro x hx
          rw [hupdated, Store.mem_keysOf_iff hw _ _ _ hi (by decide)] at hx
          have := old.marks x (by
            simp only [Cfg.updatedKey, Key.mkUpdated]
            cases hg' : Store.get st.store ⟨c.index, modeUpdated, x⟩ with
            | none => rfl
            | some v => rw [hg'] at hx; simp at hx)
          rw [this, Store.mem_keysOf_iff hw _ _ _ hi (by decide)]
          rfl)
        (by
          intro i hi'
          rw [hst5s] at hi'
          exact (Store.mem_keysOf_iff hw3 _ _ _ hi (by decide)).2 hi')
        (hfresh _ (Store.keysOf_sorted (step03.sorted hs) hw3 _ _ hi (by decide)) hused_lt)
        k5
    rw [hst5s] at a3 a4 a6
    rw [hupdated] at a6
    have hcx : Build.treeCtx c o st3.store = Build.treeCtx c o st.store :=
      treeCtx_stable c o (fun id => by rw [← kept1.vec id]; exact vecOf_congr (hitem3 id))
    rw [hcx] at a6
    refine ⟨roots', ts', ⟨a1, a2, step03.trans a3, ?_, ?_, ?_, ?_, ?_, fun _ => a5, a6, a7⟩⟩
    · intro id
      rw [a4 _ (fun i => c.updatedKey_ne_treeKey id i) (Ne.symm (c.metaKey_ne_updatedKey c id))]
      exact marks_none id
    · intro id
      rw [← kept1.vec id]
      apply vecOf_congr
      rw [a4 _ (fun i => c.itemKey_ne_treeKey id i) (Ne.symm (c.metaKey_ne_itemKey c id)), hitem3]
    · intro id
      rw [a4 _ (fun i => c.itemKey_ne_treeKey id i) (Ne.symm (c.metaKey_ne_itemKey c id)), hitem3, kept1.present]
    · intro k hk
      rw [a4 k (fun i e => hk (by rw [e]; rfl)) (fun e => hk (by rw [e]; rfl))]
      exact hother3 k hk
    · intro hf
      rw [hf] at hfit
      exact absurd rfl hfit

end Arroy
