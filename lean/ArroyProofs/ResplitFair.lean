import ArroyProofs.ResplitRound
/-! Monotone growth of a tree under `insert_items_in_file` (`Grow`): node ids and split nodes stay,
buckets only gain items.  With it, the `large` set returned by `insert_items_in_current_trees` is
characterised exactly: a sorted set of ids of over-full buckets of the final trees.  This is the
bookkeeping needed for the termination argument of the re-split loop (`ResplitFairRound`). -/
namespace Arroy
open BuildM Generated IdSet

/-- `t'` is `t` after insertions: same shape above the buckets, same node ids, every bucket kept
    with at least its items, an item child possibly turned into a bucket holding it -/
def Grow : T → T → Prop
  | .leaf i, .leaf j => i = j
  | .leaf i, .bucket _ s => i ∈ s
  | .bucket id s, .bucket id' s' => id = id' ∧ (∀ x ∈ s, x ∈ s') ∧ s.length ≤ s'.length
  | .node id n l r, .node id' n' l' r' => id = id' ∧ n = n' ∧ Grow l l' ∧ Grow r r'
  | _, _ => False

theorem Grow.refl : ∀ t : T, Grow t t
  | .leaf _ => rfl
  | .bucket _ _ => ⟨rfl, fun _ h => h, Nat.le_refl _⟩
  | .node _ _ l r => ⟨rfl, rfl, Grow.refl l, Grow.refl r⟩

theorem Grow.trans : ∀ {a b d : T}, Grow a b → Grow b d → Grow a d
  | .leaf _, .leaf _, .leaf _, h1, h2 => by
    simp only [Grow] at h1 h2 ⊢; exact h1.trans h2
  | .leaf _, .leaf _, .bucket _ _, h1, h2 => by
    simp only [Grow] at h1 h2 ⊢; exact h1 ▸ h2
  | .leaf _, .bucket _ _, .bucket _ _, h1, h2 => by
    simp only [Grow] at h1 h2 ⊢; exact h2.2.1 _ h1
  | .bucket _ _, .bucket _ _, .bucket _ _, h1, h2 => by
    simp only [Grow] at h1 h2 ⊢
    exact ⟨h1.1.trans h2.1, fun x hx => h2.2.1 x (h1.2.1 x hx), Nat.le_trans h1.2.2 h2.2.2⟩
  | .node _ _ _ _, .node _ _ _ _, .node _ _ _ _, h1, h2 => by
    simp only [Grow] at h1 h2 ⊢
    exact ⟨h1.1.trans h2.1, h1.2.1.trans h2.2.1, Grow.trans h1.2.2.1 h2.2.2.1, Grow.trans h1.2.2.2 h2.2.2.2⟩
  | .leaf _, .leaf _, .node _ _ _ _, _, h2 => by simp [Grow] at h2
  | .leaf _, .bucket _ _, .leaf _, _, h2 => by simp [Grow] at h2
  | .leaf _, .bucket _ _, .node _ _ _ _, _, h2 => by simp [Grow] at h2
  | .leaf _, .node _ _ _ _, _, h1, _ => by simp [Grow] at h1
  | .bucket _ _, .leaf _, _, h1, _ => by simp [Grow] at h1
  | .bucket _ _, .node _ _ _ _, _, h1, _ => by simp [Grow] at h1
  | .bucket _ _, .bucket _ _, .leaf _, _, h2 => by simp [Grow] at h2
  | .bucket _ _, .bucket _ _, .node _ _ _ _, _, h2 => by simp [Grow] at h2
  | .node _ _ _ _, .leaf _, _, h1, _ => by simp [Grow] at h1
  | .node _ _ _ _, .bucket _ _, _, h1, _ => by simp [Grow] at h1
  | .node _ _ _ _, .node _ _ _ _, .leaf _, _, h2 => by simp [Grow] at h2
  | .node _ _ _ _, .node _ _ _ _, .bucket _ _, _, h2 => by simp [Grow] at h2

/-- the items only grow -/
theorem Grow.items : ∀ {t t' : T}, Grow t t' → ∀ x ∈ t.items, x ∈ t'.items
  | .leaf _, .leaf _, h, x, hx => by
    simp only [Grow] at h; subst h; exact hx
  | .leaf _, .bucket _ _, h, x, hx => by
    simp only [Grow] at h
    simp only [T.items, List.mem_singleton] at hx ⊢
    subst hx; exact h
  | .bucket _ _, .bucket _ _, h, x, hx => by
    simp only [Grow] at h
    exact h.2.1 x hx
  | .node _ _ _ _, .node _ _ _ _, h, x, hx => by
    simp only [Grow] at h
    simp only [T.items, List.mem_append] at hx ⊢
    rcases hx with hx | hx
    · exact Or.inl (Grow.items h.2.2.1 x hx)
    · exact Or.inr (Grow.items h.2.2.2 x hx)
  | .leaf _, .node _ _ _ _, h, _, _ => by simp [Grow] at h
  | .bucket _ _, .leaf _, h, _, _ => by simp [Grow] at h
  | .bucket _ _, .node _ _ _ _, h, _, _ => by simp [Grow] at h
  | .node _ _ _ _, .leaf _, h, _, _ => by simp [Grow] at h
  | .node _ _ _ _, .bucket _ _, h, _, _ => by simp [Grow] at h

/-- every bucket stays a bucket, under its id, and does not shrink -/
theorem Grow.buckets : ∀ {t t' : T}, Grow t t' → ∀ p ∈ t.buckets, ∃ s', (p.1, s') ∈ t'.buckets ∧ p.2.length ≤ s'.length
  | .leaf _, _, _, p, hp => by simp [T.buckets] at hp
  | .bucket _ _, .bucket _ _, h, p, hp => by
    simp only [Grow] at h
    simp only [T.buckets, List.mem_singleton] at hp
    subst hp
    obtain ⟨rfl, _, h3⟩ := h
    exact ⟨_, by simp [T.buckets], h3⟩
  | .node _ _ _ _, .node _ _ _ _, h, p, hp => by
    simp only [Grow] at h
    simp only [T.buckets, List.mem_append] at hp ⊢
    rcases hp with hp | hp
    · obtain ⟨s', h1, h2⟩ := Grow.buckets h.2.2.1 p hp
      exact ⟨s', Or.inl h1, h2⟩
    · obtain ⟨s', h1, h2⟩ := Grow.buckets h.2.2.2 p hp
      exact ⟨s', Or.inr h1, h2⟩
  | .bucket _ _, .leaf _, h, _, _ => by simp [Grow] at h
  | .bucket _ _, .node _ _ _ _, h, _, _ => by simp [Grow] at h
  | .node _ _ _ _, .leaf _, h, _, _ => by simp [Grow] at h
  | .node _ _ _ _, .bucket _ _, h, _, _ => by simp [Grow] at h

/-- a split node stays the same split node, its two sides grow -/
theorem Grow.node_inv {id : Nat} {n : List Nat} {l r t' : T} (h : Grow (.node id n l r) t') :
    ∃ l' r', t' = .node id n l' r' ∧ Grow l l' ∧ Grow r r' := by
  cases t' with
  | leaf j => simp [Grow] at h
  | bucket id' s => simp [Grow] at h
  | node id' n' l' r' =>
    simp only [Grow] at h
    obtain ⟨rfl, rfl, h1, h2⟩ := h
    exact ⟨l', r', rfl, h1, h2⟩

/-- `insert_items_in_file` grows the tree -/
theorem insertT_grow (cx : TreeCtx) (t : T) (ins : List Nat) (g : IdGen) (rs : List Bool) (res : InsRes)
    (h : insertT cx t ins g rs = .ok res) : Grow t res.tree := by
  induction t generalizing ins g rs res with
  | leaf i =>
    rcases insertT_leaf_ok h with ⟨_, id, g', _, rfl⟩ | ⟨_, rfl⟩
    · show i ∈ union [i] ins
      exact mem_union.2 (Or.inl (by simp))
    · exact Grow.refl _
  | bucket id s =>
    rcases insertT_bucket_ok h with ⟨_, rfl⟩ | ⟨_, rfl⟩
    · exact ⟨rfl, fun x hx => mem_union.2 (Or.inl hx), length_le_union_left s ins⟩
    · exact Grow.refl _
  | node id n l r ihl ihr =>
    obtain ⟨left, right, rs1, a, b, _, ha, hb, rfl⟩ := insertT_node_ok h
    exact ⟨rfl, rfl, ihl _ _ _ _ ha, ihr _ _ _ _ hb⟩

theorem All2.grow_buckets {us us' : List T} (h : All2 Grow us us') {t : T} (ht : t ∈ us) {p : Nat × List Nat}
    (hp : p ∈ t.buckets) : ∃ t' ∈ us', ∃ s', (p.1, s') ∈ t'.buckets ∧ p.2.length ≤ s'.length := by
  obtain ⟨t', ht', hg⟩ := h.mem_left t ht
  obtain ⟨s', h1, h2⟩ := hg.buckets p hp
  exact ⟨t', ht', s', h1, h2⟩

theorem sorted_unionAll {ls : List (List Nat)} (h : ∀ l ∈ ls, Sorted l) : Sorted (unionAll ls) := by
  induction ls with
  | nil => exact sorted_nil
  | cons l ls ih =>
    exact sorted_union (h l (by simp)) (ih (fun l' hl' => h l' (List.mem_cons_of_mem _ hl')))

/-- the ids in `large` are ids of over-full buckets of the trees `us` -/
def LargeOf (cap : Nat) (us : List T) (large : List Nat) : Prop :=
  ∀ i ∈ large, ∃ t ∈ us, ∃ s, (i, s) ∈ t.buckets ∧ cap < s.length

theorem LargeOf.grow {cap : Nat} {us us' : List T} {large : List Nat} (h : LargeOf cap us large)
    (hg : All2 Grow us us') : LargeOf cap us' large := by
  intro i hi
  obtain ⟨t, ht, s, hs, hc⟩ := h i hi
  obtain ⟨t', ht', s', h1, h2⟩ := hg.grow_buckets ht hs
  exact ⟨t', ht', s', h1, Nat.lt_of_lt_of_le hc h2⟩

/-! ## one batch, with the growth relation and the exact `large` set -/

theorem insertBatch_grow (c : Cfg) (o : BuildOpts) (batch roots : List Nat) (us : List T) (g g1 : IdGen)
    (inUse : List Nat) (st st1 st2 : BState) (putss : List (List (Nat × Val))) (large : List Nat)
    (hrefs : us.map T.ref = roots.map NodeId.mkTree)
    (hholds : ∀ t ∈ us, Holds c st.store t)
    (hnd : (us.flatMap T.ids).Nodup)
    (hin : ∀ i ∈ us.flatMap T.ids, i ∈ inUse)
    (hg : GenOK inUse g) (hw : Store.WF st.store) (hi : c.index < 65536)
    (h1 : Build.insertRoots c o st.store batch roots g st = .ok ((putss, large, g1), st1))
    (h2 : forEach putss (fun puts => Build.writeBack c [] puts id) st1 = .ok ((), st2)) :
    ∃ us' : List T,
      us'.map T.ref = roots.map NodeId.mkTree ∧
      (∀ t ∈ us', Holds c st2.store t) ∧
      (us'.flatMap T.ids).Nodup ∧
      (∀ i ∈ us'.flatMap T.ids, i ∈ us.flatMap T.ids ∨ (i ∉ inUse ∧ i < 4294967296)) ∧
      (∀ i ∈ us.flatMap T.ids, i ∈ us'.flatMap T.ids) ∧
      GenOK (us'.flatMap T.ids ++ inUse) g1 ∧
      (∀ k, (∀ i ∈ us'.flatMap T.ids, k ≠ c.treeKey i) → Store.get st2.store k = Store.get st.store k) ∧
      StoreStep c st.store st2.store ∧
      All2 (InsRel (Build.treeCtx c o st.store) batch) us us' ∧
      (∀ t' ∈ us', ∀ b ∈ t'.buckets, ¬ fits (Build.cap c o) b.2.length → b.1 ∈ large) ∧
      All2 Grow us us' ∧ LargeOf (Build.cap c o) us' large ∧ Sorted large := by
  obtain ⟨rs, r1, r2, r3, r4, r5, r6, r7, r8, r9, r10⟩ :=
    insertRoots_spec c o st.store batch roots us g inUse st st1 putss large g1 hrefs hholds hnd hin hg h1
  have hputs : ∀ r ∈ rs, ∀ p ∈ r.puts, p.1 ∈ r.tree.ids := by
    intro r hr p hp
    obtain ⟨t, _, g0, rs0, hins⟩ := r1.mem_right r hr
    exact insertT_puts _ t batch g0 rs0 r hins p hp
  have hput_in : ∀ ps ∈ putss, ∀ p ∈ ps, p.1 ∈ (rs.map (·.tree)).flatMap T.ids := by
    intro ps hps p hp
    rw [r2] at hps
    obtain ⟨r, hr, rfl⟩ := List.mem_map.1 hps
    exact List.mem_flatMap.2 ⟨r.tree, List.mem_map_of_mem hr, hputs r hr p hp⟩
  have hbound : ∀ i ∈ (rs.map (·.tree)).flatMap T.ids, i < 4294967296 := by
    intro i hi'
    rcases r5 i hi' with h' | ⟨_, h'⟩
    · obtain ⟨t, ht, hit⟩ := List.mem_flatMap.1 h'
      exact lt_of_isSome_tree hw ((hholds t ht).isSome hit)
    · exact h'
  obtain ⟨hstep, hget⟩ := forEach_writeBack_spec c hi putss st1 st2 h2
    (fun ps hps p hp => hbound _ (hput_in ps hps p hp))
  rw [r10] at hstep hget
  refine ⟨rs.map (·.tree), r9, ?_, r4, r5, r6, r7, ?_, hstep, ?_, ?_, ?_, ?_, ?_⟩
  · intro t' ht'
    obtain ⟨r, hr, rfl⟩ := List.mem_map.1 ht'
    exact holds_after_writeBack c st.store st2.store rs r4 hputs r8 (by rw [← r2]; exact hget) r hr
  · intro k hk
    rw [hget]
    apply get_putAll_of_not
    intro p hp
    obtain ⟨ps, hps, hpp⟩ := List.mem_flatten.1 hp
    exact hk _ (hput_in ps hps p hpp)
  · apply All2.map_right
    exact r1.mono (fun t r ⟨g0, rs0, hins⟩ => InsRel.of_insertT hins)
  · intro t' ht' b hb hnf
    obtain ⟨r, hr, rfl⟩ := List.mem_map.1 ht'
    obtain ⟨t, _, g0, rs0, hins⟩ := r1.mem_right r hr
    rw [r3]
    apply mem_unionAll.2
    refine ⟨r.large, List.mem_map_of_mem hr, ?_⟩
    exact ((insertT_large _ t batch g0 rs0 r hins).2 b.1).2 ⟨b.2, hb, hnf⟩
  · apply All2.map_right
    exact r1.mono (fun t r ⟨g0, rs0, hins⟩ => insertT_grow _ t batch g0 rs0 r hins)
  · intro i hi'
    rw [r3] at hi'
    obtain ⟨l, hl, hil⟩ := mem_unionAll.1 hi'
    obtain ⟨r, hr, rfl⟩ := List.mem_map.1 hl
    obtain ⟨t, _, g0, rs0, hins⟩ := r1.mem_right r hr
    obtain ⟨s, hs1, hs2⟩ := ((insertT_large _ t batch g0 rs0 r hins).2 i).1 hil
    refine ⟨r.tree, List.mem_map_of_mem hr, s, hs1, ?_⟩
    have : ¬ s.length ≤ Build.cap c o := fun hle => hs2 (by simp [fits, Build.treeCtx, hle])
    omega
  · rw [r3]
    apply sorted_unionAll
    intro l hl
    obtain ⟨r, hr, rfl⟩ := List.mem_map.1 hl
    obtain ⟨t, _, g0, rs0, hins⟩ := r1.mem_right r hr
    exact (insertT_large _ t batch g0 rs0 r hins).1

/-! ## all batches -/

theorem insertAll_grow (c : Cfg) (o : BuildOpts) (roots : List Nat) (hi : c.index < 65536) (fuel : Nat) :
    ∀ (ins : List Nat) (us : List T) (g g' : IdGen) (inUse : List Nat) (st st' : BState) (large : List Nat),
    us.map T.ref = roots.map NodeId.mkTree →
    (∀ t ∈ us, Holds c st.store t) →
    (us.flatMap T.ids).Nodup →
    (∀ i ∈ us.flatMap T.ids, i ∈ inUse) →
    GenOK inUse g → Store.WF st.store → Sorted ins →
    Build.insertItemsInCurrentTrees c o roots fuel ins g st = .ok ((large, g'), st') →
    ∃ (us' : List T) (inUse' : List Nat),
      us'.map T.ref = roots.map NodeId.mkTree ∧
      (∀ t ∈ us', Holds c st'.store t) ∧
      (us'.flatMap T.ids).Nodup ∧
      (∀ i ∈ us'.flatMap T.ids, i ∈ us.flatMap T.ids ∨ (i ∉ inUse ∧ i < 4294967296)) ∧
      (∀ i ∈ us.flatMap T.ids, i ∈ us'.flatMap T.ids) ∧
      GenOK inUse' g' ∧ (∀ i ∈ inUse, i ∈ inUse') ∧ (∀ i ∈ us'.flatMap T.ids, i ∈ inUse') ∧
      (∀ k, (∀ i ∈ us'.flatMap T.ids, k ≠ c.treeKey i) → Store.get st'.store k = Store.get st.store k) ∧
      StoreStep c st.store st'.store ∧
      All2 (InsRel (Build.treeCtx c o st.store) ins) us us' ∧
      ((roots = [] ∨ ins = []) → us' = us ∧ large = [] ∧ st'.store = st.store) ∧
      (roots ≠ [] → ins ≠ [] → ∀ t' ∈ us', ∀ b ∈ t'.buckets, ¬ fits (Build.cap c o) b.2.length → b.1 ∈ large) ∧
      All2 Grow us us' ∧ LargeOf (Build.cap c o) us' large ∧ Sorted large := by
  induction fuel with
  | zero =>
    intro ins us g g' inUse st st' large _ _ _ _ _ _ _ h
    simp only [Build.insertItemsInCurrentTrees] at h
    exact (fail_ok h).elim
  | succ fuel ih =>
    intro ins us g g' inUse st st' large hrefs hholds hnd hin hg hw hs h
    simp only [Build.insertItemsInCurrentTrees] at h
    split at h
    · -- nothing to do
      rename_i hemp
      obtain ⟨e1, rfl⟩ := pure_ok' h
      simp only [Prod.mk.injEq] at e1
      obtain ⟨rfl, rfl⟩ := e1
      have hemp' : roots = [] ∨ ins = [] := by
        simpa [List.isEmpty_iff] using hemp
      refine ⟨us, inUse, hrefs, hholds, hnd, fun i hi' => Or.inl hi', fun i hi' => hi', hg, fun i hi' => hi', hin,
        fun _ _ => rfl, .refl _, ?_, fun _ => ⟨rfl, rfl, rfl⟩, ?_, All2.refl Grow.refl us,
        (fun i hi' => by cases hi'), sorted_nil⟩
      · rcases hemp' with rfl | rfl
        · have : us = [] := by
            have := congrArg List.length hrefs; simpa using this
          subst this
          trivial
        · exact All2.refl (InsRel.refl _) us
      · intro h1 h2
        rcases hemp' with h' | h'
        · exact absurd h' h1
        · exact absurd h' h2
    · rename_i hemp
      have hne : roots ≠ [] ∧ ins ≠ [] := by
        simpa [List.isEmpty_iff, not_or] using hemp
      obtain ⟨u1, st1, h1, k1⟩ := bind_ok_inv h
      clear h
      have e1 := poll_store' h1
      obtain ⟨snap, st2, h2, k2⟩ := bind_ok_inv k1
      clear k1
      obtain ⟨e2a, e2b⟩ := getStore_ok' h2
      obtain ⟨k, st3, h3, k3⟩ := bind_ok_inv k2
      clear k2
      have e3 := nextBatch_ok' h3
      split at k3
      · exact (fail_ok k3).elim
      · rename_i hk
        obtain ⟨x, st4, h4, k4⟩ := bind_ok_inv k3
        clear k3
        obtain ⟨putss, large1, g1⟩ := x
        simp only at k4
        obtain ⟨u5, st5, h5, k5⟩ := bind_ok_inv k4
        clear k4
        obtain ⟨y, st6, h6, k6⟩ := bind_ok_inv k5
        clear k5
        obtain ⟨large2, g2⟩ := y
        simp only at k6
        obtain ⟨e7, e8⟩ := pure_ok' k6
        simp only [Prod.mk.injEq] at e7
        obtain ⟨rfl, rfl⟩ := e7
        subst e8
        have hsnap : snap = st.store := by rw [← e2a, e1]
        have hst3 : st3.store = st.store := by rw [e3, ← e2b, e1]
        subst hsnap
        -- first batch
        have hb := insertBatch_grow c o (ins.take k) roots us g g1 inUse st3 st4 st5 putss large1
          (by rw [hst3] at *; exact hrefs) (by rw [hst3]; exact hholds) hnd hin hg (by rw [hst3]; exact hw) hi
          (by rw [hst3]; exact h4) h5
        rw [hst3] at hb
        obtain ⟨us1, b1, b2, b3, b4, b5, b6, b7, b8, b9, b10, b11, b12, b13⟩ := hb
        have hframe1 : TreeFrame c st.store st5.store := fun k' hk' => b7 k' (fun i _ => hk' i)
        have hcx : Build.treeCtx c o st5.store = Build.treeCtx c o st.store := hframe1.treeCtx o
        -- the remaining batches
        obtain ⟨us', inUse', c1, c2, c3, c4, c5, c6, c7, c8, c9, c10, c11, c12, c13, c14, c15, c16⟩ :=
          ih (ins.drop k) us1 g1 g2 (us1.flatMap T.ids ++ inUse) st5 st6 large2 b1 b2 b3
            (fun i hi' => List.mem_append_left _ hi') b6 (b8.wf hw) (hs.sublist (List.drop_sublist k ins)) h6
        rw [hcx] at c11
        refine ⟨us', inUse', c1, c2, c3, ?_, fun i hi' => c5 i (b5 i hi'), c6,
          fun i hi' => c7 i (List.mem_append_right _ hi'), c8, ?_, b8.trans c10, ?_, ?_, ?_, ?_, ?_, ?_⟩
        · intro i hi'
          rcases c4 i hi' with h' | ⟨h', hlt⟩
          · exact b4 i h'
          · exact Or.inr ⟨fun hm => h' (List.mem_append_right _ hm), hlt⟩
        · intro k' hk'
          rw [c9 k' hk', b7 k' (fun i hi' => hk' i (c5 i hi'))]
        · have := All2.comp (fun a b d (h1 : InsRel _ (ins.take k) a b) (h2 : InsRel _ (ins.drop k) b d) => h1.comp h2) b9 c11
          rw [List.take_append_drop] at this
          exact this
        · intro h'
          rcases h' with h' | h'
          · exact absurd h' hne.1
          · exact absurd h' hne.2
        · intro _ _ t' ht' b hb hnf
          apply mem_union.2
          by_cases hd : ins.drop k = []
          · obtain ⟨e1', _, _⟩ := c12 (Or.inr hd)
            rw [e1'] at ht'
            exact Or.inl (b10 t' ht' b hb hnf)
          · exact Or.inr (c13 hne.1 hd t' ht' b hb hnf)
        · exact All2.comp (fun a b d (h1 : Grow a b) (h2 : Grow b d) => h1.trans h2) b11 c14
        · intro i hi'
          rcases mem_union.1 hi' with h' | h'
          · exact (b12.grow c14) i h'
          · exact c15 i h'
        · exact sorted_union b13 c16

end Arroy

