import ArroyProofs.StoreLaws
import ArroyModel.Build
namespace Arroy.Build
open Arroy Generated BuildM

/-! A successful `Build.build` always ends by writing the metadata record with the name of the writer's metric
(used by C18: after a metric change and a build, the old metric is refused). -/

/-- postcondition on the final state of a successful run -/
def EnsuresFinal {α : Type} (m : BuildM α) (P : BState → Prop) : Prop := ∀ s a s', m s = .ok (a, s') → P s'

theorem ensuresFinal_bind {α β : Type} {m : BuildM α} {f : α → BuildM β} {P : BState → Prop}
    (h : ∀ a, EnsuresFinal (f a) P) : EnsuresFinal (m >>= f) P := by
  intro s b s' hb
  change BuildM.bind' m f s = _ at hb
  unfold BuildM.bind' at hb
  split at hb
  · exact h _ _ _ _ hb
  · cases hb

def MetaNamed (c : Cfg) (st : BState) : Prop :=
  ∃ items roots, Store.get st.store c.metaKey = some (.metadata c.metric.nameBytes c.dims items roots)

theorem ensuresFinal_writeMetadata (c : Cfg) (items roots : List Nat) : EnsuresFinal (writeMetadata c items roots) (MetaNamed c) := by
  intro s a s' h
  unfold writeMetadata modifyStore at h
  cases h
  exact ⟨items, roots, Store.get_put_same _ _ _⟩

theorem ensuresFinal_build (c : Cfg) (o : BuildOpts) (fuel : Nat) : EnsuresFinal (build c o fuel) (MetaNamed c) := by
  unfold build
  apply ensuresFinal_bind; intro _
  apply ensuresFinal_bind; intro items
  apply ensuresFinal_bind; intro updated
  split
  · unfold singleLeaf
    apply ensuresFinal_bind; intro _
    have tail : EnsuresFinal (do
        poll
        writeMetadata c items (if items.isEmpty = true then [] else [0])
        modifyStore fun st =>
          st.put c.versionKey (Val.version crateVersion.fst crateVersion.snd.fst crateVersion.snd.snd) : BuildM Unit)
        (MetaNamed c) := by
      apply ensuresFinal_bind; intro _
      intro s a s' h
      change BuildM.bind' _ _ s = _ at h
      unfold BuildM.bind' writeMetadata modifyStore at h
      simp only at h
      cases h
      refine ⟨items, (if items.isEmpty = true then [] else [0]), ?_⟩
      show Store.get (Store.put _ _ _) _ = _
      rw [Store.get_put, if_neg, Store.get_put_same]
      intro e
      exact absurd (congrArg Key.item e) (show ¬ metadataKeyItem = versionKeyItem by decide)
    dsimp only
    split
    · apply ensuresFinal_bind; intro _
      exact tail
    · exact tail
  · dsimp only
    apply ensuresFinal_bind; intro s
    apply ensuresFinal_bind; intro used
    apply ensuresFinal_bind; intro roots
    apply ensuresFinal_bind; intro roots
    apply ensuresFinal_bind; intro p
    obtain ⟨large, g⟩ := p
    dsimp only
    apply ensuresFinal_bind; intro p
    obtain ⟨roots, large, g⟩ := p
    dsimp only
    apply ensuresFinal_bind; intro _
    exact ensuresFinal_writeMetadata c items roots

/-- **a successful build leaves a metadata record carrying the name of the writer's metric** -/
theorem build_metaNamed {c : Cfg} {o : BuildOpts} {fuel : Nat} {st st' : BState}
    (h : build c o fuel st = .ok ((), st')) :
    ∃ items roots, Store.get st'.store c.metaKey = some (.metadata c.metric.nameBytes c.dims items roots) :=
  ensuresFinal_build c o fuel st () st' h

end Arroy.Build
