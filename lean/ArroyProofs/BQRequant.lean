import ArroyProofs.Properties.C12
import ArroyProofs.Exact
/-! Re-quantising the f32 view of a quantised vector gives the stored words back; the quantised metrics
never read a leaf header in `built_distance`, so `nnsByLeaf` does not depend on the header of the query. -/
namespace Arroy
open Generated

namespace BQL

theorem signPositive_sgn (x : Nat) : F32.signPositive (sgn x) = F32.signPositive x := by
  unfold sgn
  cases h : F32.signPositive x
  · simp only [Bool.false_eq_true, if_false]; decide
  · simp only [if_true]; decide

/-- the `±1.0` view has the sign pattern of the original -/
theorem signs_map_sgn (xs : List Nat) : C12.signs (xs.map sgn) = C12.signs xs := by
  simp [C12.signs, List.map_map, Function.comp_def, signPositive_sgn]

/-- **re-quantisation is the identity on stored words**: packing the f32 view (truncated to the
declared dimension) of `pack xs` gives `pack xs` -/
theorem pack_unpack_pack (xs : List Nat) :
    BQ.pack ((BQ.unpack (BQ.pack xs)).take xs.length) = BQ.pack xs := by
  rw [C12.C12_roundtrip]
  exact C12.C12_sign_only _ _ (signs_map_sgn xs)

end BQL

namespace Reader

/-- after repair J no quantised metric reads a header in `built_distance` -/
theorem builtDistance_bq (m : Metric) (hm : m.isBq = true) (host : Host) (ph ph' pv qh qh' qv : List Nat) :
    m.builtDistance host ph pv qh qv = m.builtDistance host ph' pv qh' qv := by
  cases m <;> first | rfl | exact absurd hm (by decide)

theorem scoreAll_bq (c : Cfg) (s : Store) (hm : c.metric.isBq = true) (qh qh' qv : List Nat)
    (ids : List Nat) : scoreAll c s qh qv ids = scoreAll c s qh' qv ids := by
  induction ids with
  | nil => rfl
  | cons id rest ih =>
    simp only [scoreAll, ih, fun h v => builtDistance_bq c.metric hm c.host qh qh' qv h h v]

/-- for the three quantised metrics the header of the query leaf is irrelevant -/
theorem nnsByLeaf_bq (c : Cfg) (s : Store) (rd : ReaderState) (hm : c.metric.isBq = true)
    (qh qh' qv : List Nat) (q : QueryOpts) : nnsByLeaf c s rd qh qv q = nnsByLeaf c s rd qh' qv q := by
  unfold nnsByLeaf
  simp only [scoreAll_bq c s hm qh qh']

end Reader
end Arroy
