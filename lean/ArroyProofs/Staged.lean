import ArroyModel.Build
import ArroyProofs.Heap
import ArroyProofs.SetLemmas
/-! The generic write-back library: what `TmpNodes` staged (`to_delete`, then `to_insert`) applied to
the store, as a function (`applyStaged`), its pointwise description (`applyStaged_get`: removed ids are
gone, the last put wins, everything else is untouched), the link with the monadic `Build.writeBack`,
and the adequacy criterion `Adequate` with the `writeback` lemma. -/
namespace Arroy
open BuildM

/-! ## keys -/

theorem Cfg.treeKey_inj {c : Cfg} {i j : Nat} : c.treeKey i = c.treeKey j ↔ i = j := by
  simp [Cfg.treeKey, Key.mkTree]

/-- a key of another index or another kind is not a tree key of `c` -/
theorem Cfg.ne_treeKey {c : Cfg} {k : Key} (h : k.index ≠ c.index ∨ k.mode ≠ Generated.modeTree) (i : Nat) :
    k ≠ c.treeKey i := by
  rintro rfl
  simp [Cfg.treeKey, Key.mkTree] at h

/-! ## erasing and putting lists of tree nodes -/

def eraseAll (c : Cfg) (s : Store) (ids : List Nat) : Store :=
  ids.foldl (fun st id => st.erase (c.treeKey id)) s

def putAllMap (c : Cfg) (remap : Nat → Nat) (s : Store) (ps : List (Nat × Val)) : Store :=
  ps.foldl (fun st p => st.put (c.treeKey (remap p.1)) p.2) s

def putAll (c : Cfg) (s : Store) (ps : List (Nat × Val)) : Store :=
  ps.foldl (fun st p => st.put (c.treeKey p.1) p.2) s

theorem putAllMap_id (c : Cfg) (s : Store) (ps : List (Nat × Val)) : putAllMap c id s ps = putAll c s ps := rfl

/-- the effect of `TmpNodes` on the store: erase every removed id, then apply (in order) the puts whose
    id was not removed -/
def applyStaged (c : Cfg) (s : Store) (removed : List Nat) (puts : List (Nat × Val)) : Store :=
  putAll c (eraseAll c s removed) (puts.filter (fun p => !(removed.contains p.1)))

theorem get_eraseAll_of_not (c : Cfg) (s : Store) (ids : List Nat) (k : Key)
    (h : ∀ i ∈ ids, k ≠ c.treeKey i) : Store.get (eraseAll c s ids) k = Store.get s k := by
  induction ids generalizing s with
  | nil => rfl
  | cons i ids ih =>
    simp only [eraseAll, List.foldl_cons]
    have := ih (s.erase (c.treeKey i)) (fun j hj => h j (List.mem_cons_of_mem _ hj))
    simp only [eraseAll] at this
    rw [this, Store.get_erase_other _ _ _ (h i (by simp))]

theorem get_eraseAll_of_mem (c : Cfg) (s : Store) (ids : List Nat) (i : Nat) (h : i ∈ ids) :
    Store.get (eraseAll c s ids) (c.treeKey i) = none := by
  induction ids generalizing s with
  | nil => simp at h
  | cons j ids ih =>
    simp only [eraseAll, List.foldl_cons]
    by_cases hi : i ∈ ids
    · exact ih _ hi
    · have hij : i = j := by simpa [hi] using h
      subst hij
      have := get_eraseAll_of_not c (s.erase (c.treeKey i)) ids (c.treeKey i)
        (fun j hj e => hi (Cfg.treeKey_inj.1 e ▸ hj))
      simp only [eraseAll] at this
      rw [this, Store.get_erase_same]

theorem get_eraseAll (c : Cfg) (s : Store) (ids : List Nat) (i : Nat) :
    Store.get (eraseAll c s ids) (c.treeKey i) = if i ∈ ids then none else Store.get s (c.treeKey i) := by
  split
  · rename_i h; exact get_eraseAll_of_mem c s ids i h
  · rename_i h
    exact get_eraseAll_of_not c s ids _ (fun j hj e => h (Cfg.treeKey_inj.1 e ▸ hj))

/-- last put wins -/
def lastPut (ps : List (Nat × Val)) (i : Nat) : Option Val :=
  (ps.reverse.find? (fun p => p.1 = i)).map (·.2)

theorem lastPut_nil (i : Nat) : lastPut [] i = none := rfl

theorem lastPut_append (a b : List (Nat × Val)) (i : Nat) :
    lastPut (a ++ b) i = (lastPut b i).or (lastPut a i) := by
  unfold lastPut
  rw [List.reverse_append, List.find?_append]
  cases List.find? (fun p => decide (p.1 = i)) b.reverse <;> simp

theorem lastPut_none {ps : List (Nat × Val)} {i : Nat} (h : ∀ p ∈ ps, p.1 ≠ i) : lastPut ps i = none := by
  unfold lastPut
  rw [Option.map_eq_none_iff, List.find?_eq_none]
  intro p hp
  simpa using h p (List.mem_reverse.1 hp)

theorem lastPut_single (i : Nat) (v : Val) : lastPut [(i, v)] i = some v := by
  simp [lastPut]

theorem lastPut_cons (p : Nat × Val) (ps : List (Nat × Val)) (i : Nat) :
    lastPut (p :: ps) i = (lastPut ps i).or (if p.1 = i then some p.2 else none) := by
  have : p :: ps = [p] ++ ps := rfl
  rw [this, lastPut_append]
  congr 1
  by_cases h : p.1 = i <;> simp [lastPut, h]

/-- a value reported by `lastPut` is one of the puts -/
theorem mem_of_lastPut {ps : List (Nat × Val)} {i : Nat} {v : Val} (h : lastPut ps i = some v) : (i, v) ∈ ps := by
  unfold lastPut at h
  rw [Option.map_eq_some_iff] at h
  obtain ⟨p, hp, rfl⟩ := h
  have h1 := List.mem_of_find?_eq_some hp
  have h2 := List.find?_some hp
  simp only [decide_eq_true_eq] at h2
  subst h2
  exact List.mem_reverse.1 h1

theorem lastPut_filter (ps : List (Nat × Val)) (rm : List Nat) (i : Nat) (hi : i ∉ rm) :
    lastPut (ps.filter (fun p => !(rm.contains p.1))) i = lastPut ps i := by
  unfold lastPut
  rw [← List.filter_reverse]
  congr 1
  induction ps.reverse with
  | nil => rfl
  | cons p ps ih =>
    by_cases hr : p.1 ∈ rm
    · have hp : ¬ p.1 = i := fun e => hi (e ▸ hr)
      have hc : rm.contains p.1 = true := by simpa using hr
      rw [List.filter_cons]
      simp only [hc, Bool.not_true, Bool.false_eq_true, ↓reduceIte]
      rw [ih, List.find?_cons]
      simp [hp]
    · have hc : rm.contains p.1 = false := by simpa using hr
      rw [List.filter_cons]
      simp only [hc, Bool.not_false, ↓reduceIte]
      rw [List.find?_cons, List.find?_cons, ih]

theorem get_putAll_of_not (c : Cfg) (s : Store) (ps : List (Nat × Val)) (k : Key)
    (h : ∀ p ∈ ps, k ≠ c.treeKey p.1) : Store.get (putAll c s ps) k = Store.get s k := by
  induction ps generalizing s with
  | nil => rfl
  | cons p ps ih =>
    simp only [putAll, List.foldl_cons]
    have := ih (s.put (c.treeKey p.1) p.2) (fun q hq => h q (List.mem_cons_of_mem _ hq))
    simp only [putAll] at this
    rw [this, Store.get_put_other _ _ _ _ (h p (by simp))]

theorem get_putAll (c : Cfg) (s : Store) (ps : List (Nat × Val)) (i : Nat) :
    Store.get (putAll c s ps) (c.treeKey i) = (lastPut ps i).or (Store.get s (c.treeKey i)) := by
  induction ps generalizing s with
  | nil => simp [putAll, lastPut]
  | cons p ps ih =>
    simp only [putAll, List.foldl_cons]
    have := ih (s.put (c.treeKey p.1) p.2)
    simp only [putAll] at this
    rw [this, lastPut_cons]
    cases lastPut ps i with
    | some v => simp
    | none =>
      by_cases hpi : p.1 = i
      · subst hpi; simp [Store.get_put_same]
      · have : c.treeKey i ≠ c.treeKey p.1 := fun e => hpi (Cfg.treeKey_inj.1 e).symm
        simp [hpi, Store.get_put_other _ _ _ _ this]

/-- pointwise description of the staged writes on tree keys: removed ids are gone, otherwise the last
    put wins, otherwise the old content stays -/
theorem applyStaged_get (c : Cfg) (s : Store) (removed : List Nat) (puts : List (Nat × Val)) (i : Nat) :
    Store.get (applyStaged c s removed puts) (c.treeKey i) =
      if i ∈ removed then none else (lastPut puts i).or (Store.get s (c.treeKey i)) := by
  unfold applyStaged
  rw [get_putAll, get_eraseAll]
  split
  · rename_i h
    rw [lastPut_none]
    · rfl
    · intro p hp e
      have := (List.mem_filter.1 hp).2
      simp [e, h] at this
  · rename_i h
    rw [lastPut_filter _ _ _ h]

theorem applyStaged_get_removed (c : Cfg) (s : Store) (removed : List Nat) (puts : List (Nat × Val)) (i : Nat)
    (h : i ∈ removed) : Store.get (applyStaged c s removed puts) (c.treeKey i) = none := by
  rw [applyStaged_get, if_pos h]

/-- untouched tree ids keep their content -/
theorem applyStaged_get_untouched (c : Cfg) (s : Store) (removed : List Nat) (puts : List (Nat × Val)) (i : Nat)
    (h1 : i ∉ removed) (h2 : ∀ p ∈ puts, p.1 ≠ i) :
    Store.get (applyStaged c s removed puts) (c.treeKey i) = Store.get s (c.treeKey i) := by
  rw [applyStaged_get, if_neg h1, lastPut_none h2]; rfl

/-- keys that are not tree keys of this index (items, metadata, other indexes) are untouched -/
theorem applyStaged_get_other (c : Cfg) (s : Store) (removed : List Nat) (puts : List (Nat × Val)) (k : Key)
    (h : ∀ i, k ≠ c.treeKey i) : Store.get (applyStaged c s removed puts) k = Store.get s k := by
  unfold applyStaged
  rw [get_putAll_of_not _ _ _ _ (fun p _ => h p.1), get_eraseAll_of_not _ _ _ _ (fun i _ => h i)]

theorem applyStaged_get_other' (c : Cfg) (s : Store) (removed : List Nat) (puts : List (Nat × Val)) (k : Key)
    (h : k.index ≠ c.index ∨ k.mode ≠ Generated.modeTree) :
    Store.get (applyStaged c s removed puts) k = Store.get s k :=
  applyStaged_get_other c s removed puts k (Cfg.ne_treeKey h)

/-! ## adequacy -/

/-- Adequacy of staged writes for producing tree `t'` from store `s`: every cell of `t'` is either
    freshly put (last, and not removed) or untouched and already there. -/
def Adequate (c : Cfg) (removed : List Nat) (puts : List (Nat × Val)) (s : Store) (t' : T) : Prop :=
  ∀ cell ∈ t'.cells, cell.1 ∉ removed ∧
    (lastPut puts cell.1 = some cell.2 ∨ (lastPut puts cell.1 = none ∧ s.get (c.treeKey cell.1) = some cell.2))

theorem writeback {c : Cfg} {removed : List Nat} {puts : List (Nat × Val)} {s : Store} {t' : T}
    (ad : Adequate c removed puts s t') : Holds c (applyStaged c s removed puts) t' := by
  intro cell hc
  obtain ⟨hnr, hput⟩ := ad cell hc
  rw [applyStaged_get, if_neg hnr]
  rcases hput with hp | ⟨hp, hh⟩
  · simp [hp]
  · simp [hp, hh]

/-- `Adequate` only looks at the ids of `t'`: other removals and puts at other ids do not matter -/
theorem Adequate.mono {c : Cfg} {rm rm' : List Nat} {ps ps' : List (Nat × Val)} {s : Store} {t' : T}
    (ad : Adequate c rm ps s t')
    (hrm : ∀ i ∈ rm', i ∈ rm ∨ i ∉ t'.ids)
    (hps : ∀ i ∈ t'.ids, lastPut ps' i = lastPut ps i) : Adequate c rm' ps' s t' := by
  intro cell hc
  have hcid : cell.1 ∈ t'.ids := mem_ids_of_mem_cells hc
  obtain ⟨h1, h2⟩ := ad cell hc
  refine ⟨?_, ?_⟩
  · intro hm
    rcases hrm _ hm with h | h
    · exact h1 h
    · exact h hcid
  · rw [hps _ hcid]; exact h2

/-- extra puts before/after and extra removals, none touching the ids of `t'` -/
theorem Adequate.extend {c : Cfg} {rm : List Nat} {ps : List (Nat × Val)} {s : Store} {t' : T}
    (ad : Adequate c rm ps s t')
    (pre post : List (Nat × Val)) (rm' : List Nat)
    (hpre : ∀ p ∈ pre, p.1 ∉ t'.ids) (hpost : ∀ p ∈ post, p.1 ∉ t'.ids)
    (hrm : ∀ i ∈ rm', i ∈ rm ∨ i ∉ t'.ids) :
    Adequate c rm' (pre ++ ps ++ post) s t' := by
  apply ad.mono hrm
  intro i hi
  rw [lastPut_append, lastPut_append,
    lastPut_none (i := i) (fun p hp e => hpost p hp (e ▸ hi)),
    lastPut_none (i := i) (fun p hp e => hpre p hp (e ▸ hi))]
  simp

/-- a store agreeing with `s` on the ids of `t'` -/
theorem Adequate.frame {c : Cfg} {rm : List Nat} {ps : List (Nat × Val)} {s s' : Store} {t' : T}
    (ad : Adequate c rm ps s t')
    (agree : ∀ i ∈ t'.ids, Store.get s' (c.treeKey i) = Store.get s (c.treeKey i)) : Adequate c rm ps s' t' := by
  intro cell hc
  obtain ⟨h1, h2⟩ := ad cell hc
  refine ⟨h1, ?_⟩
  rw [agree _ (mem_ids_of_mem_cells hc)]
  exact h2

/-! ## the monadic `writeBack` -/

theorem poll_ok {st st' : BState} (h : poll st = .ok ((), st')) : st' = { st with polls := st.polls + 1 } := by
  unfold poll at h
  split at h
  · split at h
    · cases h
    · cases h; rfl
  · cases h; rfl

theorem poll_ok_of_none {st : BState} (h : st.cancelAt = none) : poll st = .ok ((), { st with polls := st.polls + 1 }) := by
  unfold poll; rw [h]

theorem pollN_ok {k : Nat} {st st' : BState} (h : pollN k st = .ok ((), st')) :
    st' = { st with polls := st.polls + k } := by
  induction k generalizing st with
  | zero => simp only [pollN, pure, pure'] at h; cases h; rfl
  | succ k ih =>
    simp only [pollN, bind'] at h
    split at h
    · rename_i a s1 hp
      have := poll_ok hp
      have h2 := ih h
      subst this
      rw [h2]
      simp only [BState.mk.injEq, true_and, and_true]
      omega
    · cases h

theorem pollN_ok_of_none {k : Nat} {st : BState} (h : st.cancelAt = none) :
    pollN k st = .ok ((), { st with polls := st.polls + k }) := by
  induction k generalizing st with
  | zero => rfl
  | succ k ih =>
    simp only [pollN, bind', poll_ok_of_none h]
    rw [ih (by exact h)]
    simp only [Except.ok.injEq, Prod.mk.injEq, BState.mk.injEq, true_and, and_true]
    omega

/-- a loop of `poll; modify` steps that does not fail has applied every step and polled once per step -/
theorem forEach_poll_modify {α : Type} (f : α → Store → Store) (l : List α) {st st' : BState}
    (h : forEach l (fun x => bind' poll (fun _ => modifyStore (f x))) st = .ok ((), st')) :
    st' = { st with store := l.foldl (fun s x => f x s) st.store, polls := st.polls + l.length } := by
  induction l generalizing st with
  | nil => simp only [forEach, pure, pure'] at h; cases h; rfl
  | cons x xs ih =>
    simp only [forEach, bind'] at h
    split at h
    · rename_i a s1 hp
      split at hp
      · rename_i a2 s2 hp2
        have e2 := poll_ok hp2
        simp only [modifyStore] at hp
        cases hp
        have := ih h
        rw [this, e2]
        simp only [List.foldl_cons, List.length_cons, BState.mk.injEq, true_and, and_true]
        omega
      · cases hp
    · cases h

theorem forEach_poll_modify_ok_of_none {α : Type} (f : α → Store → Store) (l : List α) {st : BState}
    (hc : st.cancelAt = none) :
    forEach l (fun x => bind' poll (fun _ => modifyStore (f x))) st =
      .ok ((), { st with store := l.foldl (fun s x => f x s) st.store, polls := st.polls + l.length }) := by
  induction l generalizing st with
  | nil => rfl
  | cons x xs ih =>
    simp only [forEach, bind', poll_ok_of_none hc, modifyStore]
    rw [ih (by exact hc)]
    simp only [List.foldl_cons, List.length_cons, Except.ok.injEq, Prod.mk.injEq, BState.mk.injEq, true_and, and_true]
    omega

/-- `writeBack`, exactly: the final state when no poll fails -/
theorem writeBack_eq (c : Cfg) (removed : List Nat) (puts : List (Nat × Val)) (remap : Nat → Nat) {st st' : BState}
    (h : Build.writeBack c removed puts remap st = .ok ((), st')) :
    st' = { st with
      store := putAllMap c remap (eraseAll c st.store (IdSet.ofList removed))
        (puts.filter (fun p => !(removed.contains p.1))),
      polls := st.polls + (IdSet.ofList removed).length + (puts.filter (fun p => !(removed.contains p.1))).length } := by
  unfold Build.writeBack at h
  simp only [bind, bind'] at h
  split at h
  · rename_i a s1 h1
    have e1 := forEach_poll_modify (fun id st => st.erase (c.treeKey id)) _ h1
    have e2 := forEach_poll_modify (fun (p : Nat × Val) st => st.put (c.treeKey (remap p.1)) p.2) _ h
    rw [e2, e1]
    rfl
  · cases h

/-- `writeBack` cannot fail without a cancellation -/
theorem writeBack_ok_of_none (c : Cfg) (removed : List Nat) (puts : List (Nat × Val)) (remap : Nat → Nat) {st : BState}
    (hc : st.cancelAt = none) : ∃ st', Build.writeBack c removed puts remap st = .ok ((), st') := by
  unfold Build.writeBack
  simp only [bind, bind']
  rw [forEach_poll_modify_ok_of_none (fun id st => st.erase (c.treeKey id)) _ hc]
  simp only
  rw [forEach_poll_modify_ok_of_none (fun (p : Nat × Val) st => st.put (c.treeKey (remap p.1)) p.2) _ (by exact hc)]
  exact ⟨_, rfl⟩

theorem get_eraseAll_congr (c : Cfg) (s : Store) (a b : List Nat) (h : ∀ i, i ∈ a ↔ i ∈ b) (k : Key) :
    Store.get (eraseAll c s a) k = Store.get (eraseAll c s b) k := by
  by_cases hk : ∃ i, i ∈ a ∧ k = c.treeKey i
  · obtain ⟨i, hi, rfl⟩ := hk
    rw [get_eraseAll_of_mem _ _ _ _ hi, get_eraseAll_of_mem _ _ _ _ ((h i).1 hi)]
  · rw [get_eraseAll_of_not _ _ _ _ (fun i hi e => hk ⟨i, hi, e⟩),
      get_eraseAll_of_not _ _ _ _ (fun i hi e => hk ⟨i, (h i).2 hi, e⟩)]

theorem get_putAll_congr (c : Cfg) (s s' : Store) (ps : List (Nat × Val)) (h : ∀ k, Store.get s k = Store.get s' k) (k : Key) :
    Store.get (putAll c s ps) k = Store.get (putAll c s' ps) k := by
  induction ps generalizing s s' with
  | nil => exact h k
  | cons p ps ih =>
    simp only [putAll, List.foldl_cons]
    apply ih
    intro k'
    by_cases hk : k' = c.treeKey p.1
    · subst hk; rw [Store.get_put_same, Store.get_put_same]
    · rw [Store.get_put_other _ _ _ _ hk, Store.get_put_other _ _ _ _ hk, h]

/-- `writeBack` computes `applyStaged` (the removals are sorted and deduplicated first: same lookups) -/
theorem writeBack_store (c : Cfg) (removed : List Nat) (puts : List (Nat × Val)) {st st' : BState}
    (h : Build.writeBack c removed puts id st = .ok ((), st')) :
    (∀ k, Store.get st'.store k = Store.get (applyStaged c st.store removed puts) k) ∧
    st'.polls = st.polls + (IdSet.ofList removed).length + (puts.filter (fun p => !(removed.contains p.1))).length ∧
    st'.cancelAt = st.cancelAt ∧ st'.normals = st.normals ∧ st'.rands = st.rands ∧ st'.batches = st.batches := by
  have e := writeBack_eq c removed puts id h
  subst e
  refine ⟨?_, rfl, rfl, rfl, rfl, rfl⟩
  intro k
  simp only [putAllMap_id, applyStaged]
  exact get_putAll_congr c _ _ _ (get_eraseAll_congr c _ _ _ (fun _ => IdSet.mem_ofList)) k

end Arroy
