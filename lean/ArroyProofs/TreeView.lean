import ArroyModel.Build
import ArroyProofs.KeyLemmas
import ArroyProofs.StoreLemmas
/-! What `used_tree_node` and the metadata lookup see of a store (the tree keys and the metadata
entry) is not changed by the first steps of `build` (item preprocessing, reset of the updated keys). -/
namespace Arroy
open Generated

namespace Transp

/-- the roots recorded in the metadata entry (none if it is missing) -/
def rootsOf (c : Cfg) (s : Store) : List Nat :=
  match s.get c.metaKey with
  | some (.metadata _ _ _ roots) => roots
  | _ => []

/-- the part of the store read by `used_tree_node` and by the metadata lookup of `build` -/
def TreeView (c : Cfg) (s : Store) : List Nat × Option Val :=
  (s.keysOf c.index modeTree, s.get c.metaKey)

/-- forest invariant (one direction): if there are tree keys, the metadata lists at least one root -/
def RootsPresent (c : Cfg) (s : Store) : Prop :=
  s.keysOf c.index modeTree ≠ [] → rootsOf c s ≠ []

instance (c : Cfg) (s : Store) : Decidable (RootsPresent c s) := by
  unfold RootsPresent; infer_instance

theorem rootsPresent_of_view {c : Cfg} {s s' : Store} (h : TreeView c s' = TreeView c s) :
    RootsPresent c s' ↔ RootsPresent c s := by
  simp only [TreeView, Prod.mk.injEq] at h
  unfold RootsPresent rootsOf
  rw [h.1, h.2]

theorem encodeKey_eq (k : Key) :
    encodeKey k = be 2 k.index ++ (be 1 k.mode ++ (be 4 k.item ++ be 1 keyPadding)) := by
  simp [encodeKey, keyFields, keyFieldBytes, encInt]

def hasPrefix (i m : Nat) (k : Key) : Bool := isPrefixOf (encodePrefix i (some m)) (encodeKey k)

theorem hasPrefix_self (k : Key) : hasPrefix k.index k.mode k = true := by
  unfold hasPrefix isPrefixOf
  rw [List.isPrefixOf_iff_prefix, encodeKey_eq]
  simp only [encodePrefix]
  rw [← List.append_assoc]
  exact List.prefix_append _ _

theorem hasPrefix_unique {i m m' : Nat} {k : Key} (h : hasPrefix i m k = true)
    (hne : be 1 m ≠ be 1 m') : hasPrefix i m' k = false := by
  cases h' : hasPrefix i m' k with
  | false => rfl
  | true =>
    exfalso
    unfold hasPrefix isPrefixOf at h h'
    rw [List.isPrefixOf_iff_prefix] at h h'
    obtain ⟨t, ht⟩ := h
    obtain ⟨t', ht'⟩ := h'
    simp only [encodePrefix, List.append_assoc] at ht ht'
    have e1 := ht.trans ht'.symm
    have e2 := List.append_cancel_left e1
    exact hne (List.append_inj_left e2 (by simp [be_length]))

theorem tree_of_item {i : Nat} {k : Key} (h : hasPrefix i modeItem k = true) :
    hasPrefix i modeTree k = false := hasPrefix_unique h (by decide)

theorem ne_meta_of_item {i : Nat} {k : Key} (h : hasPrefix i modeItem k = true) :
    k ≠ Key.mkMetadata i := by
  intro e
  subst e
  have h1 : hasPrefix i modeMetadata (Key.mkMetadata i) = true := hasPrefix_self (Key.mkMetadata i)
  have := hasPrefix_unique h1 (m' := modeItem) (by decide)
  rw [h] at this; cases this

theorem tree_of_updated (i id : Nat) : hasPrefix i modeTree (Key.mkUpdated i id) = false :=
  hasPrefix_unique (m := modeUpdated) (hasPrefix_self (Key.mkUpdated i id)) (by decide)

theorem updated_ne_meta (i id : Nat) : Key.mkUpdated i id ≠ Key.mkMetadata i := by
  intro e
  have : modeUpdated = metadataKeyMode := congrArg Key.mode e
  revert this; decide

theorem filter_put_of_not (p : Key → Bool) (s : Store) (k : Key) (v : Val) (hk : p k = false) :
    List.filter (fun kv => p kv.1) (s.put k v) = List.filter (fun kv => p kv.1) s := by
  induction s with
  | nil => simp [Store.put, hk]
  | cons kv rest ih =>
    obtain ⟨k', v'⟩ := kv
    simp only [Store.put]
    split
    · simp [List.filter, hk]
    · split
      · rename_i h2
        subst h2
        simp [List.filter, hk]
      · simp only [List.filter, ih]

theorem filter_erase_of_not (p : Key → Bool) (s : Store) (k : Key) (hk : p k = false) :
    List.filter (fun kv => p kv.1) (s.erase k) = List.filter (fun kv => p kv.1) s := by
  unfold Store.erase
  rw [List.filter_filter]
  apply List.filter_congr
  intro kv _
  by_cases h : kv.1 = k
  · simp [h, hk]
  · simp [h]

theorem keysOf_eq (s : Store) (i m : Nat) :
    s.keysOf i m = (List.filter (fun kv => hasPrefix i m kv.1) s).map (·.1.item) := rfl

theorem treeView_put (c : Cfg) (s : Store) (k : Key) (v : Val) (hk : hasPrefix c.index modeItem k = true) :
    TreeView c (s.put k v) = TreeView c s := by
  unfold TreeView
  rw [keysOf_eq, keysOf_eq, filter_put_of_not _ s k v (tree_of_item hk),
    Store.get_put_other s k c.metaKey v (Ne.symm (ne_meta_of_item hk))]

theorem treeView_erase_updated (c : Cfg) (s : Store) (id : Nat) :
    TreeView c (s.erase (c.updatedKey id)) = TreeView c s := by
  unfold TreeView
  rw [keysOf_eq, keysOf_eq, filter_erase_of_not _ s (c.updatedKey id) (tree_of_updated c.index id),
    Store.get_erase_other s (c.updatedKey id) c.metaKey (Ne.symm (updated_ne_meta c.index id))]

theorem treeView_foldl_put (c : Cfg) {β : Type} (l : List (Key × β)) (g : Key × β → Val)
    (hl : ∀ x ∈ l, hasPrefix c.index modeItem x.1 = true) (s : Store) :
    TreeView c (l.foldl (fun st kv => st.put kv.1 (g kv)) s) = TreeView c s := by
  induction l generalizing s with
  | nil => rfl
  | cons x xs ih =>
    simp only [List.foldl_cons]
    rw [ih (fun y hy => hl y (List.mem_cons_of_mem _ hy)), treeView_put c s x.1 _ (hl x List.mem_cons_self)]

theorem treeView_preprocessDot (c : Cfg) (s : Store) : TreeView c (Build.preprocessDot c s) = TreeView c s := by
  unfold Build.preprocessDot
  apply treeView_foldl_put
  intro x hx
  simp only [List.mem_filterMap] at hx
  obtain ⟨kv, hkv, hm⟩ := hx
  have hp : hasPrefix c.index modeItem kv.1 = true := by
    unfold Store.prefixIter at hkv
    exact (List.mem_filter.1 hkv).2
  split at hm
  · cases hm; exact hp
  · cases hm

end Transp
end Arroy
