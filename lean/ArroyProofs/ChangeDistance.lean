import ArroyProofs.StoreFold
import ArroyProofs.WriterLaws
import ArroyProofs.Properties.C05
/-! `Writer.prepareChangingDistance` in closed form: a key-preserving map over the store without the forest
and the metadata of the index. -/
namespace Arroy
open Generated Store

namespace Writer

/-- the leaf written back for a stored leaf -/
def reencVal (c : Cfg) (m' : Metric) : Val → Val
  | .leaf _ vec => ({ c with metric := m' } : Cfg).mkLeaf ((c.metric.toVec vec).take c.dims)
  | other => other

/-- the key is visited by the item cursor of the index -/
def underItems (c : Cfg) (k : Key) : Bool := isPrefixOf (encodePrefix c.index (some modeItem)) (encodeKey k)

def reencAt (c : Cfg) (m' : Metric) (k : Key) (v : Val) : Val := if underItems c k = true then reencVal c m' v else v

theorem reencode_ok (c : Cfg) (m' : Metric) (l : Store)
    (h : ∀ kv ∈ l, underItems c kv.1 = true → C05.isLeaf kv.2 = true) :
    reencode c m' l = .ok (l.map (fun kv => (kv.1, reencAt c m' kv.1 kv.2))) := by
  induction l with
  | nil => rfl
  | cons kv rest ih =>
    obtain ⟨k, v⟩ := kv
    have ih' := ih (fun x hx => h x (List.mem_cons_of_mem _ hx))
    unfold reencode
    by_cases hp : underItems c k = true
    · have hv := h (k, v) (List.mem_cons_self ..) hp
      obtain ⟨hd, vec, rfl⟩ := (C05.isLeaf_iff v).1 hv
      have hp' : isPrefixOf (encodePrefix c.index (some modeItem)) (encodeKey k) = true := hp
      simp only [hp', if_true, ih', List.map_cons, reencAt, hp, reencVal]
    · have hp' : ¬ isPrefixOf (encodePrefix c.index (some modeItem)) (encodeKey k) = true := hp
      simp only [hp', Bool.false_eq_true, if_false, ih', List.map_cons, reencAt, hp]

/-- a value that is not a leaf under an item key makes the call fail (the real code panics on `unreachable!`) -/
theorem reencode_err (c : Cfg) (m' : Metric) (l : Store)
    (h : ∃ kv ∈ l, underItems c kv.1 = true ∧ C05.isLeaf kv.2 = false) :
    ∃ e, reencode c m' l = .error e := by
  induction l with
  | nil => obtain ⟨_, h, _⟩ := h; cases h
  | cons kv rest ih =>
    obtain ⟨k, v⟩ := kv
    unfold reencode
    by_cases hp : isPrefixOf (encodePrefix c.index (some modeItem)) (encodeKey k) = true
    · simp only [hp, if_true]
      cases v with
      | leaf hd vec =>
        have : ∃ kv ∈ rest, underItems c kv.1 = true ∧ C05.isLeaf kv.2 = false := by
          obtain ⟨x, hx, h1, h2⟩ := h
          rcases List.mem_cons.1 hx with e | hx
          · subst e; cases h2
          · exact ⟨x, hx, h1, h2⟩
        obtain ⟨e, he⟩ := ih this
        exact ⟨e, by simp only [he]⟩
      | _ => exact ⟨_, rfl⟩
    · simp only [hp, Bool.false_eq_true, if_false]
      have : ∃ kv ∈ rest, underItems c kv.1 = true ∧ C05.isLeaf kv.2 = false := by
        obtain ⟨x, hx, h1, h2⟩ := h
        rcases List.mem_cons.1 hx with e | hx
        · subst e; exact absurd h1 hp
        · exact ⟨x, hx, h1, h2⟩
      obtain ⟨e, he⟩ := ih this
      exact ⟨e, by simp only [he]⟩

theorem mem_clearTreeNodes {c : Cfg} {s : Store} {x : Key × Val} (h : x ∈ clearTreeNodes c s) : x ∈ s := by
  unfold clearTreeNodes Store.deletePrefix Store.erase at h
  exact (List.mem_filter.1 (List.mem_filter.1 h).1).1

theorem get_clearTreeNodes (c : Cfg) (s : Store) (k : Key) :
    Store.get (clearTreeNodes c s) k =
      if isPrefixOf (encodePrefix c.index (some modeTree)) (encodeKey k) = true then none
      else if k = c.metaKey then none else Store.get s k := by
  unfold clearTreeNodes
  rw [get_deletePrefix, get_erase]

theorem clearTreeNodes_sorted {c : Cfg} {s : Store} (h : Sorted s) : Sorted (clearTreeNodes c s) :=
  deletePrefix_sorted (erase_sorted h _) _ _

theorem clearTreeNodes_wf {c : Cfg} {s : Store} (h : WF s) : WF (clearTreeNodes c s) :=
  deletePrefix_wf (erase_wf h _) _ _

theorem underItems_iff (c : Cfg) (k : Key) (hk : k.wf) (hi : c.index < 65536) :
    underItems c k = true ↔ k.index = c.index ∧ k.mode = modeItem :=
  isPrefix_index_mode_iff c.index modeItem k hk hi (by decide)

theorem underItems_itemKey (c : Cfg) (id : Nat) : underItems c (c.itemKey id) = true :=
  isPrefix_index_mode_self (c.itemKey id)

/-- the store after a change of metric, explicitly -/
def changed (c : Cfg) (m' : Metric) (s : Store) : Store :=
  (clearTreeNodes c s).map (fun kv => (kv.1, reencAt c m' kv.1 kv.2))

theorem prepare_same (c : Cfg) (s : Store) : prepareChangingDistance c c.metric s = .ok s := by
  unfold prepareChangingDistance; rw [if_pos rfl]

theorem prepare_ok (c : Cfg) (m' : Metric) (s : Store) (hne : m' ≠ c.metric) (hw : WF s) (hi : c.index < 65536)
    (hl : C05.ItemsAreLeaves c s) : prepareChangingDistance c m' s = .ok (changed c m' s) := by
  unfold prepareChangingDistance
  rw [if_neg hne]
  apply reencode_ok
  intro kv hkv hp
  have hm := mem_clearTreeNodes hkv
  have := (underItems_iff c kv.1 (hw kv hm) hi).1 hp
  exact hl kv hm this.1 this.2

theorem get_changed (c : Cfg) (m' : Metric) (s : Store) (k : Key) :
    Store.get (changed c m' s) k = (Store.get (clearTreeNodes c s) k).map (reencAt c m' k) :=
  get_map_val _ _ k

/-- the database after the change, under **every** key -/
theorem get_changed_full (c : Cfg) (m' : Metric) (s : Store) (hw : Store.WF s) (hi : c.index < 65536) (k : Key) :
    Store.get (changed c m' s) k =
      if k.index = c.index ∧ k.mode = modeTree then none
      else if k = c.metaKey then none
      else if k.index = c.index ∧ k.mode = modeItem then (Store.get s k).map (reencVal c m')
      else Store.get s k := by
  rw [get_changed, get_clearTreeNodes]
  cases hg : Store.get s k with
  | none =>
    have : ∀ (p q : Prop) [Decidable p] [Decidable q],
        (if p then (none : Option Val) else if q then none else none) = none := by
      intro p q _ _; split
      · rfl
      · split <;> rfl
    rw [this]
    simp only [Option.map_none]
    split
    · rfl
    · split
      · rfl
      · split <;> rfl
  | some v =>
    have hk : k.wf := hw _ (mem_of_get hg)
    have e1 := isPrefix_index_mode_iff c.index modeTree k hk hi (by decide)
    have e2 := underItems_iff c k hk hi
    by_cases h1 : k.index = c.index ∧ k.mode = modeTree
    · rw [if_pos (e1.2 h1), if_pos h1]; rfl
    · rw [if_neg (fun h => h1 (e1.1 h)), if_neg h1]
      by_cases h2 : k = c.metaKey
      · rw [if_pos h2, if_pos h2]; rfl
      · rw [if_neg h2, if_neg h2]
        by_cases h3 : k.index = c.index ∧ k.mode = modeItem
        · rw [if_pos h3]; simp only [Option.map_some, reencAt, if_pos (e2.2 h3)]
        · rw [if_neg h3]; simp only [Option.map_some, reencAt, if_neg (fun h => h3 (e2.1 h))]

/-! ## quantised vectors (names prefixed `bq` to stay clear of other BQ lemma files) -/

theorem bqUnpackWord_length (n w : Nat) : (BQ.unpackWord n w).length = n := by
  induction n generalizing w with
  | zero => rfl
  | succ n ih => simp only [BQ.unpackWord, List.length_cons, ih]

theorem mem_bqUnpackWord {n w x : Nat} (h : x ∈ BQ.unpackWord n w) : x = F32.one ∨ x = F32.negOne := by
  induction n generalizing w with
  | zero => cases h
  | succ n ih =>
    simp only [BQ.unpackWord, List.mem_cons] at h
    rcases h with h | h
    · rw [h]; split
      · exact Or.inl rfl
      · exact Or.inr rfl
    · exact ih h

theorem bqUnpack_length (ws : List Nat) : (BQ.unpack ws).length = quantizedWordBits * ws.length := by
  unfold BQ.unpack
  induction ws with
  | nil => rfl
  | cons w ws ih =>
    rw [List.flatMap_cons, List.length_append, ih, bqUnpackWord_length, List.length_cons, Nat.mul_succ, Nat.add_comm]

theorem mem_bqUnpack {ws : List Nat} {x : Nat} (h : x ∈ BQ.unpack ws) : x = F32.one ∨ x = F32.negOne := by
  unfold BQ.unpack at h
  obtain ⟨w, _, hx⟩ := List.mem_flatMap.1 h
  exact mem_bqUnpackWord hx

/-- up to 64 components are packed into one word (`chunks` is defined by well-founded recursion and does not
    evaluate by `rfl`) -/
theorem bqPack_short (xs : List Nat) (h0 : xs ≠ []) (h : xs.length ≤ quantizedWordBits) :
    BQ.pack xs = [BQ.packWord xs] := by
  unfold BQ.pack
  rw [chunks]
  have h1 : ¬ (quantizedWordBits = 0 ∨ xs = []) := by
    rintro (e | e)
    · exact absurd e (by decide)
    · exact h0 e
  rw [dif_neg h1, List.take_of_length_le h, List.drop_eq_nil_of_le h, chunks, dif_pos (Or.inr rfl)]
  rfl

end Writer
end Arroy
