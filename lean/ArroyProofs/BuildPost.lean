import ArroyProofs.BuildTouch
/-! Post-conditions of a successful `build`: the updated marks of the index are gone and the metadata
record is written. -/
namespace Arroy
open Generated BuildM

/-- on success the final store satisfies `Q` -/
def Post (Q : Store → Prop) (m : BuildM α) : Prop :=
  ∀ st a st', m st = .ok (a, st') → Q st'.store

namespace Post
variable {Q : Store → Prop}

theorem bind_right {m : BuildM α} {f : α → BuildM β} (hf : ∀ a, Post Q (f a)) : Post Q (m >>= f) := by
  intro st b st' h
  obtain ⟨a, st1, _, h2⟩ := BuildM.bind_ok.1 h
  exact hf a _ _ _ h2

theorem ite {p : Prop} [Decidable p] {a b : BuildM α} (ha : Post Q a) (hb : Post Q b) :
    Post Q (if p then a else b) := by
  split <;> assumption

theorem modifyStore (f : Store → Store) (h : ∀ s, Q (f s)) : Post Q (BuildM.modifyStore f) := by
  intro st a st' e
  simp only [BuildM.modifyStore, Except.ok.injEq, Prod.mk.injEq] at e
  rw [← e.2]; exact h _

/-- a post-condition established by `m` survives `f` if `f` preserves a relation that transports it -/
theorem bind_pres {R : Store → Store → Prop} {m : BuildM α} {f : α → BuildM β} (hm : Post Q m)
    (hf : ∀ a, StorePres R (f a)) (hRQ : ∀ s s', R s s' → Q s → Q s') : Post Q (m >>= f) := by
  intro st b st' h
  obtain ⟨a, st1, h1, h2⟩ := BuildM.bind_ok.1 h
  exact hRQ _ _ (hf a _ _ _ h2) (hm _ _ _ h1)
end Post

namespace Build

/-- what `build` does after `pre_process_items`, `item_indices` and `reset_and_retrieve_updated_items` -/
def rest (c : Cfg) (o : BuildOpts) (loopFuel : Nat) (items updated : List Nat) : BuildM Unit :=
  if fits (cap c o) items.length then singleLeaf c items else
  let toDelete := updated
  let toInsert := IdSet.inter items updated
  do
  let s ← getStore
  let roots := match s.get c.metaKey with
    | some (.metadata _ _ _ roots) => roots
    | _ => []
  let used ← usedTreeNode c
  let g := IdGen.new used
  let target := targetNTrees o c.dims items.length roots.length
  let roots ← deleteExtraTrees c (roots.length - target) roots
  let roots ← deleteItemsFromTrees c o roots toDelete
  let (large, g) ← insertItemsInCurrentTrees c o roots (toInsert.length + 1) toInsert g
  let (roots, large, g) ← newTrees c items (target - roots.length) roots large g
  incrementalIndexLargeDescendants c o loopFuel large g
  writeMetadata c items roots

theorem build_eq (c : Cfg) (o : BuildOpts) (loopFuel : Nat) :
    build c o loopFuel = (preProcessItems c >>= fun _ => itemIndices c >>= fun items =>
      resetUpdated c >>= fun updated => rest c o loopFuel items updated) := rfl

variable {c : Cfg} {R : Store → Store → Prop}

theorem rest_pres (h : OpsClosed c R) (o : BuildOpts) (fuel : Nat) (items updated : List Nat) :
    StorePres R (rest c o fuel items updated) := by
  have hR := h.toStoreRel
  unfold rest
  apply StorePres.ite (singleLeaf_pres h _)
  dsimp only
  apply StorePres.bind hR (StorePres.getStore hR); intro s
  apply StorePres.bind hR (StorePres.usedTreeNode hR c); intro used
  apply StorePres.bind hR (deleteExtraTrees_pres h _ _); intro roots
  apply StorePres.bind hR (deleteItemsFromTrees_pres h o _ _); intro roots'
  apply StorePres.bind hR (insertItemsInCurrentTrees_pres h o _ _ _ _); intro x
  obtain ⟨large, g⟩ := x
  apply StorePres.bind hR (newTrees_pres h _ _ _ _ _); intro y
  obtain ⟨roots'', large', g'⟩ := y
  apply StorePres.bind hR (incrementalIndexLargeDescendants_pres h o _ _ _); intro _
  exact writeMetadata_pres h _ _

/-- the metadata record a build ends with -/
def MetaWritten (c : Cfg) (s : Store) : Prop :=
  ∃ items roots, Store.get s c.metaKey = some (.metadata c.metric.nameBytes c.dims items roots)

theorem writeMetadata_post (c : Cfg) (items roots : List Nat) : Post (MetaWritten c) (writeMetadata c items roots) :=
  Post.modifyStore _ (fun s => ⟨items, roots, Store.get_put_same s _ _⟩)

theorem singleLeaf_post (c : Cfg) (items : List Nat) : Post (MetaWritten c) (singleLeaf c items) := by
  unfold singleLeaf
  apply Post.bind_right; intro _
  dsimp only
  have hjp : ∀ u : Unit, Post (MetaWritten c) ((fun (_ : Unit) => (do
      poll
      writeMetadata c items (if items.isEmpty = true then [] else [0])
      modifyStore fun st => Store.put st c.versionKey
        (.version crateVersion.1 crateVersion.2.1 crateVersion.2.2) : BuildM Unit)) u) := by
    intro u
    apply Post.bind_right; intro _
    intro st a st' e
    obtain ⟨_, st1, h1, h2⟩ := BuildM.bind_ok.1 e
    obtain ⟨it, ro, hg⟩ := writeMetadata_post c items _ _ _ _ h1
    simp only [BuildM.modifyStore, Except.ok.injEq, Prod.mk.injEq] at h2
    rw [← h2.2]
    refine ⟨it, ro, ?_⟩
    show Store.get (Store.put st1.store c.versionKey _) c.metaKey = _
    rw [Store.get_put_other _ _ _ _ (by
      simp [Cfg.metaKey, Cfg.versionKey, Key.mkMetadata, Key.mkVersion, metadataKeyItem, versionKeyItem]), hg]
  apply Post.ite
  · apply Post.bind_right; intro u; exact hjp u
  · exact hjp ()

theorem rest_post (c : Cfg) (o : BuildOpts) (fuel : Nat) (items updated : List Nat) :
    Post (MetaWritten c) (rest c o fuel items updated) := by
  unfold rest
  apply Post.ite (singleLeaf_post c _)
  dsimp only
  apply Post.bind_right; intro s
  apply Post.bind_right; intro used
  apply Post.bind_right; intro roots
  apply Post.bind_right; intro roots'
  apply Post.bind_right; intro x
  obtain ⟨large, g⟩ := x
  apply Post.bind_right; intro y
  obtain ⟨roots'', large', g'⟩ := y
  apply Post.bind_right; intro _
  exact writeMetadata_post c _ _

/-- a successful build ends with the metadata record of its metric and dimension -/
theorem build_metaWritten (c : Cfg) (o : BuildOpts) (fuel : Nat) : Post (MetaWritten c) (build c o fuel) := by
  rw [build_eq]
  apply Post.bind_right; intro _
  apply Post.bind_right; intro items
  apply Post.bind_right; intro updated
  exact rest_post c o fuel items updated

/-! ### `reset_and_retrieve_updated_items` erases every updated mark -/

theorem forEach_erase_spec (key : Nat → Key) : ∀ (ids : List Nat) (st st' : BState),
    forEach ids (fun id => do poll; modifyStore (fun s => Store.erase s (key id))) st = .ok ((), st') →
    st'.store = ids.foldl (fun s id => Store.erase s (key id)) st.store := by
  intro ids
  induction ids with
  | nil => intro st st' h; rw [NoWrite.pure () _ _ _ h]; rfl
  | cons id rest ih =>
    intro st st' h
    unfold forEach at h
    obtain ⟨_, st1, h1, h2⟩ := BuildM.bind'_ok.1 h
    obtain ⟨_, st0, h3, h4⟩ := BuildM.bind_ok.1 h1
    have e0 := NoWrite.poll _ _ _ h3
    simp only [BuildM.modifyStore, Except.ok.injEq, Prod.mk.injEq] at h4
    rw [ih _ _ h2, ← h4.2, List.foldl_cons, e0]

theorem mem_keys_foldl_erase (key : Nat → Key) (ids : List Nat) (s : Store) (k : Key)
    (h : k ∈ Frame.keys (ids.foldl (fun s id => Store.erase s (key id)) s)) :
    k ∈ Frame.keys s ∧ ∀ id ∈ ids, k ≠ key id := by
  induction ids generalizing s with
  | nil => exact ⟨h, fun _ h => by cases h⟩
  | cons id rest ih =>
    obtain ⟨h1, h2⟩ := ih _ h
    obtain ⟨h3, h4⟩ := Frame.mem_keys_erase h1
    refine ⟨h3, fun id' hid' => ?_⟩
    rcases List.mem_cons.1 hid' with rfl | hid'
    · exact h4
    · exact h2 _ hid'

/-- no key under the `(i, Updated)` prefix -/
def NoUpdated (i : Nat) (s : Store) : Prop :=
  ∀ k ∈ Frame.keys s, isPrefixOf (encodePrefix i (some modeUpdated)) (encodeKey k) = false

theorem NoUpdated.prefixIter_nil {i : Nat} {s : Store} (h : NoUpdated i s) :
    Store.prefixIter s i (some modeUpdated) = [] := by
  unfold Store.prefixIter
  rw [List.filter_eq_nil_iff]
  intro kv hkv
  rw [h kv.1 (List.mem_map_of_mem hkv)]
  simp

theorem NoUpdated.of_noNew {i : Nat} {s s' : Store} (hR : NoNewUpdated i s s') (h : NoUpdated i s) :
    NoUpdated i s' := by
  intro k hk
  cases hp : isPrefixOf (encodePrefix i (some modeUpdated)) (encodeKey k)
  · rfl
  · rw [← h k (hR k hp hk), hp]

theorem resetUpdated_post (c : Cfg) (hi : c.index < 65536) (st st' : BState) (upd : List Nat)
    (hwf : ∀ k ∈ Frame.keys st.store,
      isPrefixOf (encodePrefix c.index (some modeUpdated)) (encodeKey k) = true → k.wf)
    (h : resetUpdated c st = .ok (upd, st')) : NoUpdated c.index st'.store := by
  unfold resetUpdated at h
  obtain ⟨s, st0, h0, h1⟩ := BuildM.bind_ok.1 h
  simp only [BuildM.getStore, Except.ok.injEq, Prod.mk.injEq] at h0
  obtain ⟨rfl, rfl⟩ := h0
  obtain ⟨_, st1, h2, h3⟩ := BuildM.bind_ok.1 h1
  rw [← (BuildM.pure_ok.1 h3).2]
  have spec := forEach_erase_spec (fun id => c.updatedKey id) _ _ _ h2
  intro k hk
  cases hp : isPrefixOf (encodePrefix c.index (some modeUpdated)) (encodeKey k)
  · rfl
  · exfalso
    rw [spec] at hk
    obtain ⟨hk1, hk2⟩ := mem_keys_foldl_erase _ _ _ _ hk
    have kwf := hwf k hk1 hp
    obtain ⟨e1, e2⟩ := (isPrefixOf_kind c.index modeUpdated k kwf hi (by decide)).1 hp
    apply hk2 k.item
    · simp only [Store.keysOf, Store.prefixIter, List.mem_map, List.mem_filter]
      simp only [Frame.keys, List.mem_map] at hk1
      obtain ⟨kv, hkv, rfl⟩ := hk1
      exact ⟨kv, ⟨hkv, hp⟩, rfl⟩
    · cases k
      simp only at e1 e2
      subst e1 e2
      rfl

/-- after a successful build no key under the `(index, Updated)` prefix is left -/
theorem build_noUpdated (c : Cfg) (hi : c.index < 65536) (o : BuildOpts) (fuel : Nat) (st st' : BState)
    (hwf : ∀ k ∈ Frame.keys st.store,
      isPrefixOf (encodePrefix c.index (some modeUpdated)) (encodeKey k) = true → k.wf)
    (h : build c o fuel st = .ok ((), st')) : NoUpdated c.index st'.store := by
  rw [build_eq] at h
  obtain ⟨_, st1, h1, h2⟩ := BuildM.bind_ok.1 h
  obtain ⟨items, st2, h3, h4⟩ := BuildM.bind_ok.1 h2
  obtain ⟨upd, st3, h5, h6⟩ := BuildM.bind_ok.1 h4
  have r1 := preProcessItems_noNewUpdated c _ _ _ h1
  have r2 := itemIndices_noWrite c _ _ _ h3
  have hwf2 : ∀ k ∈ Frame.keys st2.store,
      isPrefixOf (encodePrefix c.index (some modeUpdated)) (encodeKey k) = true → k.wf := by
    intro k hk hp
    rw [r2] at hk
    exact hwf k (r1 k hp hk) hp
  have n3 := resetUpdated_post c hi st2 st3 upd hwf2 h5
  exact NoUpdated.of_noNew (rest_pres (NoNewUpdated.opsClosed c) o fuel items upd _ _ _ h6) n3

end Build
end Arroy
