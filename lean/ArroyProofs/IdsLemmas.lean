import ArroyModel.Ids
import ArroyModel.Tree
/-! Lemmas behind C13: the set difference used by `ConcurrentNodeIds::new`, the inductive invariant of
the atomic-step transition system `Arroy.Ids`, and the link to the sequential `IdGen`. -/
namespace Arroy.Ids

/-! ## `diff` -/

theorem diff_eq_idset (a b : List Nat) : diff a b = IdSet.diff a b := by
  fun_induction diff a b <;> simp [IdSet.diff, *]

theorem diff_sublist (a b : List Nat) : (diff a b).Sublist a := by
  fun_induction diff a b <;> simp_all

theorem diff_not_mem (a b : List Nat) (ha : a.Pairwise (· < ·)) (hb : b.Pairwise (· < ·)) :
    ∀ z ∈ diff a b, z ∉ b := by
  fun_induction diff a b <;> grind [List.pairwise_cons, diff_sublist, List.Sublist.subset]

theorem diff_length (a b : List Nat) (ha : a.Pairwise (· < ·)) (hb : b.Pairwise (· < ·))
    (hsub : ∀ z ∈ b, z ∈ a) : (diff a b).length + b.length = a.length := by
  fun_induction diff a b with
  | case1 b =>
    cases b with
    | nil => rfl
    | cons y ys => exact absurd (hsub y (List.mem_cons_self ..)) (by simp)
  | case2 a => simp
  | case3 x xs y ys hxy ih =>
    rw [List.pairwise_cons] at ha hb
    have := ih ha.2 (List.pairwise_cons.2 hb) (by
      intro z hz
      have h1 := hsub z hz
      rcases List.mem_cons.1 h1 with rfl | h1
      · rcases List.mem_cons.1 hz with rfl | hz
        · omega
        · have := hb.1 _ hz; omega
      · exact h1)
    simp at this ⊢; omega
  | case4 x xs y ys hxy hyx ih =>
    exfalso
    rw [List.pairwise_cons] at ha
    rcases List.mem_cons.1 (hsub y (List.mem_cons_self ..)) with rfl | h
    · omega
    · have := ha.1 _ h; omega
  | case5 x xs y ys hxy hyx ih =>
    have hxy : x = y := by omega
    subst hxy
    rw [List.pairwise_cons] at ha hb
    have := ih ha.2 hb.2 (by
      intro z hz
      rcases List.mem_cons.1 (hsub z (List.mem_cons_of_mem _ hz)) with rfl | h1
      · have := hb.1 _ hz; omega
      · exact h1)
    simp at this ⊢; omega

theorem le_getLast_of_pairwise {l : List Nat} (h : l.Pairwise (· < ·)) {m : Nat}
    (hm : l.getLast? = some m) : ∀ x ∈ l, x ≤ m := by
  induction l with
  | nil => simp
  | cons a l ih =>
    rw [List.pairwise_cons] at h
    cases l with
    | nil => simp at hm; subst hm; simp
    | cons b l =>
      rw [List.getLast?_cons_cons] at hm
      have ih := ih h.2 hm
      intro x hx
      rcases List.mem_cons.1 hx with rfl | hx
      · have := h.1 b (List.mem_cons_self ..); have := ih b (List.mem_cons_self ..); omega
      · exact ih x hx

theorem nodup_getElem?_inj {l : List Nat} (h : l.Nodup) {i j : Nat} {x : Nat}
    (hi : l[i]? = some x) (hj : l[j]? = some x) : i = j := by
  induction l generalizing i j with
  | nil => simp at hi
  | cons a l ih =>
    rw [List.nodup_cons] at h
    cases i <;> cases j
    · rfl
    · simp at hi hj; subst hi; exact absurd (List.mem_of_getElem? hj) h.1
    · simp at hi hj; subst hj; exact absurd (List.mem_of_getElem? hi) h.1
    · simp at hi hj; rw [ih h.2 hi hj]

/-! ## the invariant -/

/-- the number of threads inside a request that have not yet touched `select_in_bitmap` / `current` -/
def Config.pre (c : Config) : Nat := c.threads.countP (fun th => th.pc.pre)

/-- the number of threads on their way to `current.fetch_add` -/
def Config.post (c : Config) : Nat := c.threads.countP (fun th => th.pc.post)

/-- the number of ids handed out by the counter `current` (they are the ones `≥ last`) -/
def cntOf (last : Nat) (ids : List Nat) : Nat := (ids.filter (fun x => decide (last ≤ x))).length

/-- what `new` establishes about the immutable part -/
structure Static (usedIds : List Nat) (A : List Nat) (last : Nat) : Prop where
  availLt : ∀ x ∈ A, x < last
  availFresh : ∀ x ∈ A, x ∉ usedIds
  availNodup : A.Nodup
  availLen : A.length + usedIds.length = last
  usedLt : ∀ x ∈ usedIds, x < last
  lastLe : last ≤ 4294967296

/-- The inductive invariant on the cells `g`, the ids handed out `ids`, the number `F` of
`DatabaseFull` answers, and the numbers `N`/`P`/`Q` of threads whose pc is `busy`/`pre`/`post`.
`selU` is the ghost unwrapped value of `select_in_bitmap` (the number of its `fetch_add`s so far). -/
structure InvN (usedIds : List Nat) (selU : Nat) (g : Cells) (ids : List Nat) (F N P Q : Nat) : Prop where
  static : Static usedIds g.available g.last
  /-- every started request is in flight, got an id, or got `DatabaseFull` -/
  usedEq : g.used = usedIds.length + ids.length + N + F
  /-- requests that passed the `used` check hold distinct slots among the 2^32 ids -/
  passLe : usedIds.length + ids.length + N ≤ 4294967296
  fullUsed : g.used ≤ 4294967296 → F = 0
  usedFull : 4294967296 ≤ g.used → usedIds.length + ids.length + N = 4294967296
  selEq : g.sel = wrap32 selU
  selLe : selU + P ≤ ids.length + N
  idsLen : ids.length = min selU g.available.length + cntOf g.last ids
  /-- `current` holds the true counter value as long as that is a `u32` (it wraps to 0 only after
  handing out `u32::MAX`) -/
  curEq : g.last + cntOf g.last ids < 4294967296 → g.current = g.last + cntOf g.last ids
  curLe : g.last + cntOf g.last ids ≤ 4294967296
  lookF : g.look = false → g.available.length ≤ selU
  postF : 0 < Q → g.available.length ≤ selU
  logOk : ∀ x ∈ ids, (∃ k, k < selU ∧ g.available[k]? = some x) ∨
    (g.last ≤ x ∧ x < g.last + cntOf g.last ids)
  idsNodup : ids.Nodup

def Inv (usedIds : List Nat) (selU : Nat) (c : Config) : Prop :=
  InvN usedIds selU c.g c.ids c.fulls c.inflight c.pre c.post

theorem countP_set_thread {p : Thread → Bool} {l : List Thread} {t : Nat} {th th' : Thread}
    (h : l[t]? = some th) :
    (l.set t th').countP p + (p th).toNat = l.countP p + (p th').toNat := by
  have hlt : t < l.length := by
    rcases Nat.lt_or_ge t l.length with h' | h'
    · exact h'
    · rw [List.getElem?_eq_none h'] at h; cases h
  have he : l[t] = th := by
    rw [List.getElem?_eq_getElem hlt] at h; exact Option.some.inj h
  have h1 := List.countP_set (p := p) (a := th') hlt
  have h2 : (if p l[t] = true then 1 else 0) ≤ l.countP p := List.boole_getElem_le_countP (p := p) hlt
  rw [he] at h1 h2
  cases hp : p th <;> cases hp' : p th' <;>
    simp only [hp, hp', Bool.toNat_true, Bool.toNat_false, Bool.false_eq_true, if_true, if_false] at h1 h2 ⊢ <;> omega

theorem toNat_le_countP {p : Thread → Bool} {l : List Thread} {t : Nat} {th : Thread}
    (h : l[t]? = some th) : (p th).toNat ≤ l.countP p := by
  have hmem : th ∈ l := List.mem_of_getElem? h
  cases hp : p th with
  | false => simp
  | true => simpa using List.countP_pos_iff.2 ⟨th, hmem, hp⟩

/-! ### the effect of each atomic step on the invariant -/
section steps
set_option linter.unusedSimpArgs false
variable {usedIds : List Nat} {selU : Nat} {g : Cells} {ids : List Nat} {F N P Q N' P' Q' : Nat}

/-- `used.fetch_add` observing a value `> u32::MAX`: `DatabaseFull` -/
theorem InvN.stepFull (h : InvN usedIds selU g ids F N P Q) (hu : g.used > u32Max)
    (hN : N' + (Pc.busy .idle).toNat = N + (Pc.busy .idle).toNat)
    (hP : P' + (Pc.pre .idle).toNat = P + (Pc.pre .idle).toNat)
    (hQ : Q' + (Pc.post .idle).toNat = Q + (Pc.post .idle).toNat) :
    InvN usedIds selU { g with used := g.used + 1 } ids (F + 1) N' P' Q' := by
  obtain ⟨hs, h1, h2, h3, h4, h5, h6, h7, h8, h9, h10, h11, h12, h13⟩ := h
  simp [Pc.busy, Pc.pre, Pc.post, u32Max] at hN hP hQ hu
  subst hN hP hQ
  exact ⟨hs, by simp only [wrap32]; omega, h2, by simp only [wrap32]; omega, by simp only [wrap32]; omega, h5, h6, h7, h8, h9, h10, h11, h12, h13⟩

/-- `used.fetch_add` observing a value `≤ u32::MAX` -/
theorem InvN.stepPass (h : InvN usedIds selU g ids F N P Q) (hu : ¬ g.used > u32Max)
    (hN : N' + (Pc.busy .idle).toNat = N + (Pc.busy .afterUsed).toNat)
    (hP : P' + (Pc.pre .idle).toNat = P + (Pc.pre .afterUsed).toNat)
    (hQ : Q' + (Pc.post .idle).toNat = Q + (Pc.post .afterUsed).toNat) :
    InvN usedIds selU { g with used := g.used + 1 } ids F N' P' Q' := by
  obtain ⟨hs, h1, h2, h3, h4, h5, h6, h7, h8, h9, h10, h11, h12, h13⟩ := h
  simp [Pc.busy, Pc.pre, Pc.post, u32Max] at hN hP hQ hu
  subst hN hP hQ
  exact ⟨hs, by simp only [wrap32]; omega, by omega, by simp only [wrap32]; omega, by simp only [wrap32]; omega, h5, by omega,
    h7, h8, h9, h10, h11, h12, h13⟩

/-- `look_into_bitmap.load` -/
theorem InvN.stepLoad (h : InvN usedIds selU g ids F N P Q)
    (hN : N' + (Pc.busy .afterUsed).toNat = N + (Pc.busy (.afterLook g.look)).toNat)
    (hP : P' + (Pc.pre .afterUsed).toNat = P + (Pc.pre (.afterLook g.look)).toNat)
    (hQ : Q' + (Pc.post .afterUsed).toNat = Q + (Pc.post (.afterLook g.look)).toNat) :
    InvN usedIds selU g ids F N' P' Q' := by
  obtain ⟨hs, h1, h2, h3, h4, h5, h6, h7, h8, h9, h10, h11, h12, h13⟩ := h
  simp [Pc.busy, Pc.pre] at hN hP
  subst hN hP
  refine ⟨hs, h1, h2, h3, h4, h5, h6, h7, h8, h9, h10, ?_, h12, h13⟩
  intro hq
  cases hl : g.look with
  | false => exact h10 hl
  | true => rw [hl] at hQ; simp [Pc.post] at hQ; exact h11 (by omega)

/-- `select_in_bitmap.fetch_add` returning `k` with `available.select(k) = Some(x)` -/
theorem InvN.stepSelSome (h : InvN usedIds selU g ids F N P Q) {x : Nat}
    (hx : g.available[g.sel]? = some x)
    (hN : N' + (Pc.busy (.afterLook true)).toNat = N + (Pc.busy .idle).toNat)
    (hP : P' + (Pc.pre (.afterLook true)).toNat = P + (Pc.pre .idle).toNat)
    (hQ : Q' + (Pc.post (.afterLook true)).toNat = Q + (Pc.post .idle).toNat) :
    InvN usedIds (selU + 1) { g with sel := wrap32 (g.sel + 1) } (x :: ids) F N' P' Q' := by
  obtain ⟨hs, h1, h2, h3, h4, h5, h6, h7, h8, h9, h10, h11, h12, h13⟩ := h
  simp [Pc.busy, Pc.pre, Pc.post] at hN hP hQ
  subst hN hP hQ
  simp only [wrap32] at *
  have hsel : g.sel = selU := by omega
  rw [hsel] at hx
  have hklt : selU < g.available.length := (List.getElem?_eq_some_iff.1 hx).1
  have hxlt : x < g.last := hs.availLt x (List.mem_of_getElem? hx)
  have hc : cntOf g.last (x :: ids) = cntOf g.last ids := by
    simp [cntOf, List.filter_cons, Nat.not_le.2 hxlt]
  refine ⟨hs, by simp only [List.length_cons, wrap32]; omega, by simp only [List.length_cons, wrap32]; omega, h3,
    by simp only [List.length_cons, wrap32]; omega, by simp only [wrap32]; omega, by simp only [List.length_cons, wrap32]; omega,
    by simp only [List.length_cons, hc, wrap32]; omega, by rw [hc]; exact h8, by rw [hc]; exact h9,
    fun hl => by have := h10 hl; omega, fun hq => by have := h11 hq; omega, ?_, ?_⟩
  · intro y hy
    rw [hc]
    rcases List.mem_cons.1 hy with rfl | hy
    · exact Or.inl ⟨selU, by omega, hx⟩
    · rcases h12 y hy with ⟨k, hk, e⟩ | r
      · exact Or.inl ⟨k, by omega, e⟩
      · exact Or.inr r
  · refine List.nodup_cons.2 ⟨?_, h13⟩
    intro hmem
    rcases h12 x hmem with ⟨k, hk, e⟩ | ⟨r, _⟩
    · have := nodup_getElem?_inj hs.availNodup e hx; omega
    · omega

/-- `select_in_bitmap.fetch_add` returning `k` with `available.select(k) = None` -/
theorem InvN.stepSelNone (h : InvN usedIds selU g ids F N P Q)
    (hx : g.available[g.sel]? = none)
    (hN : N' + (Pc.busy (.afterLook true)).toNat = N + (Pc.busy (.afterSel g.sel)).toNat)
    (hP : P' + (Pc.pre (.afterLook true)).toNat = P + (Pc.pre (.afterSel g.sel)).toNat)
    (hQ : Q' + (Pc.post (.afterLook true)).toNat = Q + (Pc.post (.afterSel g.sel)).toNat) :
    InvN usedIds (selU + 1) { g with sel := wrap32 (g.sel + 1) } ids F N' P' Q' := by
  obtain ⟨hs, h1, h2, h3, h4, h5, h6, h7, h8, h9, h10, h11, h12, h13⟩ := h
  simp [Pc.busy, Pc.pre, Pc.post] at hN hP hQ
  subst hN hP hQ
  simp only [wrap32] at *
  have hsel : g.sel = selU := by omega
  rw [hsel] at hx
  have hklt : g.available.length ≤ selU := List.getElem?_eq_none_iff.1 hx
  refine ⟨hs, h1, h2, h3, h4, by simp only [wrap32]; omega, by omega, by simp only [wrap32]; omega, h8, h9,
    fun _ => by simp only [wrap32]; omega, fun _ => by simp only [wrap32]; omega, ?_, h13⟩
  intro y hy
  rcases h12 y hy with ⟨k, hk, e⟩ | r
  · exact Or.inl ⟨k, by omega, e⟩
  · exact Or.inr r

/-- `look_into_bitmap.store(false)` -/
theorem InvN.stepStore (h : InvN usedIds selU g ids F N P Q) {k : Nat} (hq : 0 < Q)
    (hN : N' + (Pc.busy (.afterSel k)).toNat = N + (Pc.busy .afterStore).toNat)
    (hP : P' + (Pc.pre (.afterSel k)).toNat = P + (Pc.pre .afterStore).toNat)
    (_hQ : Q' + (Pc.post (.afterSel k)).toNat = Q + (Pc.post .afterStore).toNat) :
    InvN usedIds selU { g with look := false } ids F N' P' Q' := by
  obtain ⟨hs, h1, h2, h3, h4, h5, h6, h7, h8, h9, h10, h11, h12, h13⟩ := h
  simp [Pc.busy, Pc.pre, Pc.post] at hN hP
  subst hN hP
  exact ⟨hs, h1, h2, h3, h4, h5, h6, h7, h8, h9, fun _ => h11 hq, fun _ => h11 hq, h12, h13⟩

/-- `current.fetch_add` (from `afterLook false` or from `afterStore`) -/
theorem InvN.stepCur (h : InvN usedIds selU g ids F N P Q) {pc : Pc} (hpost : pc.post = true)
    (hN : N' + (Pc.busy pc).toNat = N + (Pc.busy .idle).toNat)
    (hP : P' + (Pc.pre pc).toNat = P + (Pc.pre .idle).toNat)
    (hQ : Q' + (Pc.post pc).toNat = Q + (Pc.post .idle).toNat) :
    InvN usedIds selU { g with current := wrap32 (g.current + 1) } (g.current :: ids) F N' P' Q' := by
  obtain ⟨hs, h1, h2, h3, h4, h5, h6, h7, h8, h9, h10, h11, h12, h13⟩ := h
  have hbusy : pc.busy = true := by cases pc <;> simp_all [Pc.busy, Pc.post]
  have hN : N' + 1 = N := by rw [hbusy] at hN; exact hN
  have hQ : Q' + 1 = Q := by rw [hpost] at hQ; exact hQ
  have hP : P' ≤ P := by
    have e0 : (Pc.pre .idle).toNat = 0 := rfl
    omega
  subst hN hQ
  simp only [wrap32] at h5
  have hlen := h11 (by omega)
  have hal := hs.availLen
  have hcur : g.current = g.last + cntOf g.last ids := h8 (by omega)
  have hc : cntOf g.last (g.current :: ids) = cntOf g.last ids + 1 := by
    simp [cntOf, List.filter_cons, hcur]
  refine ⟨hs, ?_, ?_, h3, ?_, h5, ?_, ?_, ?_, ?_, h10, fun _ => hlen, ?_, ?_⟩ <;>
    (try dsimp only [List.length_cons]) <;> try rw [hc]
  · omega
  · omega
  · omega
  · omega
  · omega
  · simp only [wrap32]; omega
  · omega
  · intro y hy
    rcases List.mem_cons.1 hy with rfl | hy
    · exact Or.inr (by omega)
    · rcases h12 y hy with l | r
      · exact Or.inl l
      · exact Or.inr (by omega)
  · refine List.nodup_cons.2 ⟨?_, h13⟩
    intro hmem
    rcases h12 _ hmem with ⟨k, hk, e⟩ | r
    · have := hs.availLt _ (List.mem_of_getElem? e); omega
    · omega

end steps

/-! ### the invariant along schedules -/

theorem inv_step {usedIds : List Nat} {selU : Nat} {c : Config} (h : Inv usedIds selU c) (t : Nat) :
    ∃ selU', Inv usedIds selU' (stepCore c t).1 := by
  unfold stepCore
  split
  · exact ⟨_, h⟩
  · next th hth =>
    split
    · obtain ⟨pc, rem⟩ := th
      have hcnt : ∀ (p : Pc → Bool) (pc' : Pc) (rem' : Option Nat),
          (c.threads.set t ⟨pc', rem'⟩).countP (fun th => p th.pc) + (p pc).toNat
            = c.threads.countP (fun th => p th.pc) + (p pc').toNat :=
        fun p pc' rem' => countP_set_thread (p := fun th => p th.pc) hth
      cases pc with
      | idle =>
        by_cases hu : c.g.used > u32Max
        · simp only [stepPc, hu, if_true]
          exact ⟨_, InvN.stepFull h hu (hcnt Pc.busy _ _) (hcnt Pc.pre _ _) (hcnt Pc.post _ _)⟩
        · simp only [stepPc, hu, if_false]
          exact ⟨_, InvN.stepPass h hu (hcnt Pc.busy _ _) (hcnt Pc.pre _ _) (hcnt Pc.post _ _)⟩
      | afterUsed =>
        simp only [stepPc]
        exact ⟨_, InvN.stepLoad h (hcnt Pc.busy _ _) (hcnt Pc.pre _ _) (hcnt Pc.post _ _)⟩
      | afterLook b =>
        cases b with
        | true =>
          simp only [stepPc]
          cases hx : c.g.available[c.g.sel]? with
          | some x =>
            exact ⟨_, InvN.stepSelSome h hx (hcnt Pc.busy _ _) (hcnt Pc.pre _ _) (hcnt Pc.post _ _)⟩
          | none =>
            exact ⟨_, InvN.stepSelNone h hx (hcnt Pc.busy _ _) (hcnt Pc.pre _ _) (hcnt Pc.post _ _)⟩
        | false =>
          simp only [stepPc]
          exact ⟨_, InvN.stepCur h (pc := .afterLook false) rfl
            (hcnt Pc.busy _ _) (hcnt Pc.pre _ _) (hcnt Pc.post _ _)⟩
      | afterSel k =>
        simp only [stepPc]
        have hq : 0 < c.post := toNat_le_countP (p := fun th => th.pc.post) hth
        exact ⟨_, InvN.stepStore h hq (hcnt Pc.busy _ _) (hcnt Pc.pre _ _) (hcnt Pc.post _ _)⟩
      | afterStore =>
        simp only [stepPc]
        exact ⟨_, InvN.stepCur h (pc := .afterStore) rfl
          (hcnt Pc.busy _ _) (hcnt Pc.pre _ _) (hcnt Pc.post _ _)⟩
    · exact ⟨_, h⟩

theorem inv_run {usedIds : List Nat} {selU : Nat} {c : Config} (h : Inv usedIds selU c)
    (sched : List Nat) : ∃ selU', Inv usedIds selU' (run c sched) := by
  unfold run
  induction sched generalizing c selU with
  | nil => exact ⟨_, h⟩
  | cons t ts ih =>
    obtain ⟨s', h'⟩ := inv_step h t
    exact ih h'


theorem countP_init (p : Pc → Bool) (hp : p .idle = false) (budgets : List (Option Nat)) :
    (budgets.map (fun b => ({ pc := .idle, remaining := b } : Thread))).countP (fun th => p th.pc) = 0 := by
  induction budgets with
  | nil => rfl
  | cons b bs ih => simp [hp]

theorem static_init {usedIds : List Nat} (hs : usedIds.Pairwise (· < ·))
    (hlt : ∀ x ∈ usedIds, x < 4294967296) (budgets : List (Option Nat)) :
    Static usedIds (initWith usedIds budgets).g.available (initWith usedIds budgets).g.last := by
  simp only [initWith]
  generalize hlast : lastOf usedIds = last
  unfold lastOf at hlast
  have hused : ∀ x ∈ usedIds, x < last := by
    intro x hx
    cases hm : usedIds.getLast? with
    | none => rw [List.getLast?_eq_none_iff.1 hm] at hx; cases hx
    | some m =>
      rw [hm] at hlast
      have := le_getLast_of_pairwise hs hm x hx
      simp only at hlast; omega
  have hle : last ≤ 4294967296 := by
    cases hm : usedIds.getLast? with
    | none => rw [hm] at hlast; simp only at hlast; omega
    | some m =>
      rw [hm] at hlast
      have := hlt m (List.mem_of_getLast? hm)
      simp only at hlast; omega
  have hsub := diff_sublist (List.range last) usedIds
  refine ⟨?_, ?_, ?_, ?_, hused, hle⟩
  · intro x hx; exact List.mem_range.1 (hsub.subset hx)
  · exact diff_not_mem _ _ List.pairwise_lt_range hs
  · exact hsub.nodup List.nodup_range
  · have := diff_length (List.range last) usedIds List.pairwise_lt_range hs
      (fun z hz => List.mem_range.2 (hused z hz))
    simpa using this

theorem inv_init {usedIds : List Nat} (hs : usedIds.Pairwise (· < ·))
    (hlt : ∀ x ∈ usedIds, x < 4294967296) (budgets : List (Option Nat)) :
    Inv usedIds 0 (initWith usedIds budgets) := by
  have hst := static_init hs hlt budgets
  have hN : (initWith usedIds budgets).inflight = 0 := countP_init Pc.busy rfl budgets
  have hP : (initWith usedIds budgets).pre = 0 := countP_init Pc.pre rfl budgets
  have hQ : (initWith usedIds budgets).post = 0 := countP_init Pc.post rfl budgets
  have hI : (initWith usedIds budgets).ids = [] := rfl
  have hF : (initWith usedIds budgets).fulls = 0 := rfl
  unfold Inv
  rw [hN, hP, hQ, hI, hF]
  refine ⟨hst, rfl, ?_, fun _ => rfl, ?_, rfl, Nat.le_refl _, ?_, fun _ => rfl, ?_, ?_,
    fun h => absurd h (Nat.lt_irrefl _), fun x hx => (by cases hx), List.nodup_nil⟩
  · have := hst.availLen; have := hst.lastLe; simp only [List.length_nil]; omega
  · intro h
    have h' : 4294967296 ≤ usedIds.length := h
    have := hst.availLen; have := hst.lastLe; simp only [List.length_nil]; omega
  · simp [cntOf]
  · have := hst.lastLe; simpa [cntOf] using this
  · intro h
    have h' : (!(initWith usedIds budgets).g.available.isEmpty) = false := h
    simp at h'
    simp [h']


/-! ## the `u32` cells hold `u32` values -/

def CellsU32 (g : Cells) : Prop := g.current < 4294967296 ∧ g.sel < 4294967296

theorem stepPc_u32 (g : Cells) (pc : Pc) (h : CellsU32 g) : CellsU32 (stepPc g pc).1 := by
  obtain ⟨h1, h2⟩ := h
  have hw : ∀ n, wrap32 n < 4294967296 := fun n => Nat.mod_lt _ (by decide)
  unfold CellsU32
  cases pc with
  | afterLook b =>
    cases b <;> simp only [stepPc] <;> (try split) <;>
      first | exact ⟨h1, h2⟩ | exact ⟨hw _, h2⟩ | exact ⟨h1, hw _⟩
  | _ =>
    simp only [stepPc] <;> (try split) <;>
      first | exact ⟨h1, h2⟩ | exact ⟨hw _, h2⟩ | exact ⟨h1, hw _⟩

theorem stepCore_u32 (c : Config) (t : Nat) (h : CellsU32 c.g) : CellsU32 (stepCore c t).1.g := by
  unfold stepCore
  split
  · exact h
  · split
    · exact stepPc_u32 _ _ h
    · exact h

theorem run_u32 (c : Config) (sched : List Nat) (h : CellsU32 c.g) : CellsU32 (run c sched).g := by
  unfold run
  induction sched generalizing c with
  | nil => exact h
  | cons t ts ih => exact ih _ (stepCore_u32 c t h)

theorem lastOf_lt {usedIds : List Nat} (h : ∀ x ∈ usedIds, x < 4294967295) : lastOf usedIds < 4294967296 := by
  unfold lastOf
  cases hm : usedIds.getLast? with
  | none => simp
  | some m => have := h m (List.mem_of_getLast? hm); simp only; omega

/-! ## consequences of the invariant -/

theorem Inv.fresh {usedIds : List Nat} {selU : Nat} {c : Config} (h : Inv usedIds selU c) :
    ∀ x ∈ c.ids, x ∉ usedIds ∧ x < 4294967296 := by
  intro x hx
  have hs := h.static
  rcases h.logOk x hx with ⟨k, _, e⟩ | ⟨h1, h2⟩
  · have hm := List.mem_of_getElem? e
    have := hs.availLt x hm; have := hs.lastLe
    exact ⟨hs.availFresh x hm, by omega⟩
  · have := h.curLe
    exact ⟨fun hm => by have := hs.usedLt x hm; omega, by omega⟩

theorem idsOf_nodup_inj {log : List (Nat × Result)} (hnd : (idsOf log).Nodup) {i j t₁ t₂ x : Nat}
    (hi : log[i]? = some (t₁, .id x)) (hj : log[j]? = some (t₂, .id x)) : i = j := by
  induction log generalizing i j with
  | nil => simp at hi
  | cons p log ih =>
    have hmem : ∀ (k t : Nat), log[k]? = some (t, Result.id x) → x ∈ idsOf log := by
      intro k t hk
      exact List.mem_filterMap.2 ⟨_, List.mem_of_getElem? hk, rfl⟩
    have hnd' : (idsOf log).Nodup := by
      obtain ⟨t, r⟩ := p
      cases r with
      | id n => exact (List.nodup_cons.1 hnd).2
      | full => exact hnd
    cases i with
    | zero =>
      cases j with
      | zero => rfl
      | succ j =>
        simp only [List.getElem?_cons_zero, List.getElem?_cons_succ] at hi hj
        cases hi
        exact absurd (hmem j t₂ hj) (List.nodup_cons.1 hnd).1
    | succ i =>
      cases j with
      | zero =>
        simp only [List.getElem?_cons_zero, List.getElem?_cons_succ] at hi hj
        cases hj
        exact absurd (hmem i t₁ hi) (List.nodup_cons.1 hnd).1
      | succ j =>
        simp only [List.getElem?_cons_succ] at hi hj
        rw [ih hnd' hi hj]

/-! ## the sequential generator `IdGen` -/

/-- the sequential generator state a configuration stands for (threads and log forgotten) -/
def abs (c : Config) : IdGen :=
  { available := c.g.available, sel := c.g.sel, look := c.g.look, current := c.g.current, used := c.g.used }

theorem abs_initWith (usedIds : List Nat) (budgets : List (Option Nat)) :
    abs (initWith usedIds budgets) = IdGen.new usedIds := by
  unfold abs initWith IdGen.new lastOf
  cases usedIds.getLast? <;> simp [diff_eq_idset]

theorem stepCore_of {c : Config} {t : Nat} {pc : Pc} {rem : Option Nat}
    (hth : c.threads[t]? = some ⟨pc, rem⟩) (hen : (Thread.enabled ⟨pc, rem⟩) = true) :
    stepCore c t =
      ({ g := (stepPc c.g pc).1
         threads := c.threads.set t ⟨(stepPc c.g pc).2.1, Thread.remAfter ⟨pc, rem⟩⟩
         log := match (stepPc c.g pc).2.2.2 with | some r => (t, r) :: c.log | none => c.log },
       some ((stepPc c.g pc).2.2.1, (stepPc c.g pc).2.2.2)) := by
  unfold stepCore
  rw [hth]
  simp only [hen, if_true]
  rfl

theorem enabled_of_busy {pc : Pc} {rem : Option Nat} (h : pc ≠ .idle) : Thread.enabled ⟨pc, rem⟩ = true := by
  cases pc <;> simp_all [Thread.enabled]

theorem stepCore_busy (g : Cells) (ts : List Thread) (log : List (Nat × Result)) (t : Nat) (pc : Pc)
    (rem : Option Nat) (hlt : t < ts.length) (hpc : pc.busy = true) :
    stepCore ⟨g, ts.set t ⟨pc, rem⟩, log⟩ t =
      ({ g := (stepPc g pc).1
         threads := ts.set t ⟨(stepPc g pc).2.1, rem⟩
         log := match (stepPc g pc).2.2.2 with | some r => (t, r) :: log | none => log },
       some ((stepPc g pc).2.2.1, (stepPc g pc).2.2.2)) := by
  have hne : pc ≠ .idle := by rintro rfl; cases hpc
  have hth : (Config.mk g (ts.set t ⟨pc, rem⟩) log).threads[t]? = some ⟨pc, rem⟩ := by simp [hlt]
  rw [stepCore_of hth (enabled_of_busy hne)]
  have : Thread.remAfter ⟨pc, rem⟩ = rem := by cases pc <;> simp_all [Thread.remAfter]
  simp [this]

theorem request_eq (c : Config) (t : Nat) (rem : Option Nat)
    (hth : c.threads[t]? = some ⟨.idle, rem⟩) (hrem : rem ≠ some 0) :
    match IdGen.next (abs c) with
    | .ok (id, g') =>
        (request c t).2 = some (.id id) ∧ abs (request c t).1 = g' ∧
        (request c t).1.log = (t, .id id) :: c.log ∧
        (request c t).1.threads = c.threads.set t ⟨.idle, rem.map (· - 1)⟩
    | .error e =>
        e = .dbFull ∧ (request c t).2 = some .full ∧
        abs (request c t).1 = { abs c with used := (abs c).used + 1 } ∧
        (request c t).1.log = (t, .full) :: c.log ∧
        (request c t).1.threads = c.threads.set t ⟨.idle, rem.map (· - 1)⟩ := by
  have hlt : t < c.threads.length := by
    rcases Nat.lt_or_ge t c.threads.length with h' | h'
    · exact h'
    · rw [List.getElem?_eq_none h'] at hth; cases hth
  have hen : Thread.enabled ⟨.idle, rem⟩ = true := by
    cases rem with
    | none => rfl
    | some n => cases n with
      | zero => exact absurd rfl hrem
      | succ n => rfl
  have hget : ∀ (a : Thread), (c.threads.set t a)[t]? = some a := by
    intro a; simp [hlt]
  unfold request
  by_cases hu : c.g.used > u32Max
  · have hu' : c.g.used > IdGen.u32Max := hu
    simp [IdGen.next, abs, hu', requestFuel, stepCore_of hth hen, stepPc, hu, Thread.remAfter]
  · have hu' : ¬ c.g.used > IdGen.u32Max := hu
    have e1 := stepCore_of hth hen
    simp only [stepPc, hu, if_false] at e1
    cases hl : c.g.look with
    | false =>
      simp only [requestFuel, e1]
      rw [stepCore_busy _ _ _ _ _ _ hlt rfl]
      simp only [stepPc, hl]
      rw [stepCore_busy _ _ _ _ _ _ hlt rfl]
      simp only [stepPc]
      simp [IdGen.next, abs, hu', hl, Thread.remAfter, wrap32]
    | true =>
      cases hx : c.g.available[c.g.sel]? with
      | some x =>
        simp only [requestFuel, e1]
        rw [stepCore_busy _ _ _ _ _ _ hlt rfl]
        simp only [stepPc, hl]
        rw [stepCore_busy _ _ _ _ _ _ hlt rfl]
        simp only [stepPc, hx]
        simp [IdGen.next, abs, hu', hl, hx, Thread.remAfter, wrap32]
      | none =>
        simp only [requestFuel, e1]
        rw [stepCore_busy _ _ _ _ _ _ hlt rfl]
        simp only [stepPc, hl]
        rw [stepCore_busy _ _ _ _ _ _ hlt rfl]
        simp only [stepPc, hx]
        rw [stepCore_busy _ _ _ _ _ _ hlt rfl]
        simp only [stepPc]
        rw [stepCore_busy _ _ _ _ _ _ hlt rfl]
        simp only [stepPc]
        simp [IdGen.next, abs, hu', hl, hx, Thread.remAfter, wrap32]


theorem run_append (c : Config) (s1 s2 : List Nat) : run c (s1 ++ s2) = run (run c s1) s2 := by
  simp [run, List.foldl_append]

theorem requestFuel_eq_run (t : Nat) : ∀ (fuel : Nat) (c : Config),
    ∃ k, (requestFuel c t fuel).1 = run c (List.replicate k t) := by
  intro fuel
  induction fuel with
  | zero => intro c; exact ⟨0, rfl⟩
  | succ fuel ih =>
    intro c
    unfold requestFuel
    split
    · next c' _ r he => exact ⟨1, by simp [run, he]⟩
    · next c' _ he =>
      obtain ⟨k, hk⟩ := ih c'
      refine ⟨k + 1, ?_⟩
      rw [hk, List.replicate_succ]
      simp [run, he]
    · next c' he => exact ⟨1, by simp [run, he]⟩

theorem inv_request {usedIds : List Nat} {selU : Nat} {c : Config} (h : Inv usedIds selU c) (t : Nat) :
    ∃ selU', Inv usedIds selU' (request c t).1 := by
  obtain ⟨k, hk⟩ := requestFuel_eq_run t 5 c
  unfold request
  rw [hk]
  exact inv_run h _

/-- `k` successive requests to the sequential generator (stops at the first error) -/
def nextN : Nat → IdGen → Except Err (List Nat × IdGen)
  | 0, g => .ok ([], g)
  | k+1, g =>
    match g.next with
    | .error e => .error e
    | .ok (id, g1) =>
      match nextN k g1 with
      | .error e => .error e
      | .ok (ids, g2) => .ok (id :: ids, g2)

theorem next_ok_of_le {g : IdGen} (h : g.used ≤ IdGen.u32Max) :
    ∃ id g', g.next = .ok (id, g') ∧ g'.used = g.used + 1 := by
  have h' : ¬ g.used > IdGen.u32Max := by omega
  unfold IdGen.next
  simp only [h', if_false]
  split
  · split
    · exact ⟨_, _, rfl, rfl⟩
    · exact ⟨_, _, rfl, rfl⟩
  · exact ⟨_, _, rfl, rfl⟩

theorem next_error_of_gt {g : IdGen} (h : g.used > IdGen.u32Max) : g.next = .error .dbFull := by
  unfold IdGen.next
  simp only [h, if_true]

theorem nextN_ok_iff (k : Nat) (g : IdGen) :
    (∃ ids g', nextN k g = .ok (ids, g')) ↔ (k = 0 ∨ g.used + k ≤ 4294967296) := by
  induction k generalizing g with
  | zero => simp [nextN]
  | succ k ih =>
    by_cases hu : g.used ≤ IdGen.u32Max
    · obtain ⟨id, g1, e1, e2⟩ := next_ok_of_le hu
      have ih := ih g1
      simp only [nextN, e1]
      constructor
      · rintro ⟨ids, g', e⟩
        right
        cases hn : nextN k g1 with
        | error e' => rw [hn] at e; cases e
        | ok p =>
          have := ih.1 ⟨p.1, p.2, hn⟩
          simp only [IdGen.u32Max] at hu
          omega
      · intro h
        have : k = 0 ∨ g1.used + k ≤ 4294967296 := by omega
        obtain ⟨ids, g', e⟩ := ih.2 this
        exact ⟨id :: ids, g', by rw [e]⟩
    · have hu' : g.used > IdGen.u32Max := by omega
      simp only [nextN, next_error_of_gt hu']
      simp only [IdGen.u32Max] at hu'
      constructor
      · rintro ⟨_, _, e⟩; cases e
      · intro h; omega

/-- the sequential generator is the one-thread instance of the transition system -/
theorem nextN_simulated {usedIds : List Nat} (t : Nat) : ∀ (k : Nat) {selU : Nat} {c : Config},
    Inv usedIds selU c → c.threads[t]? = some ⟨.idle, none⟩ →
    ∀ {ids : List Nat} {g' : IdGen}, nextN k (abs c) = .ok (ids, g') →
    ∃ c' selU', Inv usedIds selU' c' ∧ abs c' = g' ∧ c'.ids = ids.reverse ++ c.ids := by
  intro k
  induction k with
  | zero =>
    intro selU c h _ ids g' e
    simp only [nextN] at e
    cases e
    exact ⟨c, selU, h, rfl, rfl⟩
  | succ k ih =>
    intro selU c h hth ids g' e
    have hr := request_eq c t none hth (by simp)
    simp only [nextN] at e
    cases hn : IdGen.next (abs c) with
    | error e' => rw [hn] at e; cases e
    | ok p =>
      obtain ⟨id, g1⟩ := p
      rw [hn] at e hr
      simp only at e hr
      obtain ⟨_, habs, hlog, hthreads⟩ := hr
      cases hn2 : nextN k g1 with
      | error e' => rw [hn2] at e; cases e
      | ok p2 =>
        obtain ⟨ids2, g2⟩ := p2
        rw [hn2] at e
        simp only at e
        cases e
        obtain ⟨s1, h1⟩ := inv_request h t
        have hlt : t < c.threads.length := by
          rcases Nat.lt_or_ge t c.threads.length with h' | h'
          · exact h'
          · rw [List.getElem?_eq_none h'] at hth; cases hth
        have hth1 : (request c t).1.threads[t]? = some ⟨.idle, none⟩ := by
          rw [hthreads]; simp [hlt]
        rw [← habs] at hn2
        obtain ⟨c', s', h', habs', hids'⟩ := ih h1 hth1 hn2
        refine ⟨c', s', h', habs', ?_⟩
        rw [hids']
        have : (request c t).1.ids = id :: c.ids := by
          simp [Config.ids, hlog, idsOf]
        rw [this]
        simp

end Arroy.Ids
