import ArroyProofs.RoaringLemmas
import ArroyProofs.Properties.C16
/-! Helper lemmas for C16 (codec half): vectors, node values, metadata records. -/
namespace Arroy
namespace CodecL
open Generated IdSet Roaring

/-! ## vectors -/

theorem wordBytes_pos (m : Metric) : 0 < m.wordBytes := by cases m <;> decide

theorem wordBytes_cases (m : Metric) : m.wordBytes = 4 ∨ m.wordBytes = 8 := by cases m <;> decide

theorem encodeVec_length (m : Metric) (v : List Nat) : (encodeVec m v).length = m.wordBytes * v.length :=
  length_flatMap_le _ v

theorem decodeVec_encodeVec (m : Metric) (v : List Nat) (h : ∀ x ∈ v, x < 256 ^ m.wordBytes) :
    decodeVec m (encodeVec m v) = some v := by
  unfold decodeVec
  rw [encodeVec_length, Nat.mul_mod_right]
  simp only [ne_eq, not_true_eq_false, if_false]
  unfold encodeVec
  rw [ofLe_chunks_flatMap_le (wordBytes_pos m) v h]

/-! ## node values -/

theorem encodeVal_leaf_eq (m : Metric) (hdr vec : List Nat) :
    encodeVal m (.leaf hdr vec) = leafTag :: (hdr.flatMap (le 4) ++ encodeVec m vec) := by
  simp [encodeVal]

theorem encodeVal_desc_eq (m : Metric) (ids : List Nat) :
    encodeVal m (.desc ids) = descendantsTag :: Roaring.encode ids := by
  simp [encodeVal]

theorem encodeVal_split_eq (m : Metric) (l r : NodeId) (n : List Nat) :
    encodeVal m (.split l r n) = splitTag :: (encodeNodeId l ++ (encodeNodeId r ++ encodeVec m n)) := by
  simp [encodeVal]

theorem decodeNode_leaf (m : Metric) (hdr vec : List Nat) (hl : hdr.length = m.header.length)
    (hh : ∀ x ∈ hdr, x < 2 ^ 32) (hv : ∀ x ∈ vec, x < 256 ^ m.wordBytes) :
    decodeNode m (encodeVal m (.leaf hdr vec)) = some (.leaf hdr vec) := by
  rw [encodeVal_leaf_eq]
  unfold decodeNode
  simp only [if_true]
  have hlen : (hdr.flatMap (le 4)).length = 4 * m.header.length := by rw [length_flatMap_le, hl]
  have h1 : ¬ ((hdr.flatMap (le 4) ++ encodeVec m vec).length < 4 * m.header.length) := by
    rw [List.length_append, hlen]; omega
  rw [if_neg h1, take_append_len _ _ _ hlen, drop_append_len _ _ _ hlen, decodeVec_encodeVec m vec hv,
    ofLe_chunks_flatMap_le (by decide) hdr hh]
  rfl

theorem decodeNode_split (m : Metric) (l r : NodeId) (n : List Nat)
    (hl1 : l.mode < 256) (hl2 : l.item < 256 ^ 4) (hl3 : C16.validMode l.mode)
    (hr1 : r.mode < 256) (hr2 : r.item < 256 ^ 4) (hr3 : C16.validMode r.mode)
    (hv : ∀ x ∈ n, x < 256 ^ m.wordBytes) :
    decodeNode m (encodeVal m (.split l r n)) = some (.split l r n) := by
  rw [encodeVal_split_eq]
  unfold decodeNode
  have h1 : ¬ (splitTag = leafTag) := by decide
  simp only [h1, if_false, if_true]
  rw [C16.C16_nodeid_roundtrip l hl1 hl2 hl3]
  simp only [Option.bind_eq_bind, Option.bind_some]
  rw [C16.C16_nodeid_roundtrip r hr1 hr2 hr3]
  simp only [Option.bind_some]
  rw [decodeVec_encodeVec m n hv]
  rfl

theorem decodeNode_desc (m : Metric) (ids : List Nat) (hs : Sorted ids) (hb : ∀ x ∈ ids, x < 2 ^ 32) :
    decodeNode m (encodeVal m (.desc ids)) = some (.desc ids) := by
  rw [encodeVal_desc_eq]
  unfold decodeNode
  have h1 : ¬ (descendantsTag = leafTag) := by decide
  have h2 : ¬ (descendantsTag = splitTag) := by decide
  simp only [h1, h2, if_false, if_true]
  have := decode_encode ids hs hb []
  rw [List.append_nil] at this
  rw [this]
  rfl

/-! ## metadata -/

theorem splitAtNul_append (name rest : Bytes) (h : ∀ b ∈ name, b ≠ 0) :
    splitAtNul (name ++ 0 :: rest) = some (name, rest) := by
  induction name with
  | nil => simp [splitAtNul]
  | cons b bs ih =>
    have hb : b ≠ 0 := h b (by simp)
    simp only [List.cons_append, splitAtNul, hb, if_false]
    rw [ih (fun c hc => h c (by simp [hc]))]
    rfl

theorem encodeVal_metadata_eq (m : Metric) (name : Bytes) (dims : Nat) (items roots : List Nat) :
    encodeVal m (.metadata name dims items roots) =
      name ++ 0 :: (be 4 dims ++ (be 4 (Roaring.serializedSize items) ++
        (Roaring.encode items ++ roots.flatMap (le 4)))) := by
  simp [encodeVal, Generated.metadataLayout, metaFieldBytes]

theorem roots_parse (roots : List Nat) (h : ∀ r ∈ roots, r < 2 ^ 32) :
    (chunks 4 (roots.flatMap (le 4))).filterMap (fun c => if c.length = 4 then some (ofLe c) else none)
      = roots := by
  rw [chunks_flatMap_le (by decide)]
  induction roots with
  | nil => rfl
  | cons r rs ih =>
    simp only [List.map_cons, List.filterMap_cons, le_length, if_true]
    rw [ofLe_le 4 r (h r (by simp)), ih (fun x hx => h x (by simp [hx]))]

theorem decodeMeta_encode (m : Metric) (name : Bytes) (dims : Nat) (items roots : List Nat)
    (hname : ∀ b ∈ name, b ≠ 0) (hdims : dims < 2 ^ 32) (hs : Sorted items)
    (hb : ∀ x ∈ items, x < 2 ^ 32) (hr : ∀ r ∈ roots, r < 2 ^ 32) :
    decodeMeta (encodeVal m (.metadata name dims items roots)) = some (.metadata name dims items roots) := by
  rw [encodeVal_metadata_eq]
  unfold decodeMeta
  rw [splitAtNul_append _ _ hname]
  simp only [Option.bind_eq_bind, Option.bind_some]
  have hsz := serializedSize_lt items hs hb
  have hlen := encode_length items
  generalize hE : Roaring.encode items = E at *
  generalize hR : roots.flatMap (le 4) = R at *
  have h1 : ¬ ((be 4 dims ++ (be 4 (serializedSize items) ++ (E ++ R))).length < 8) := by
    simp only [List.length_append, be_length]; omega
  have h2 : (be 4 dims ++ (be 4 (serializedSize items) ++ (E ++ R))).take 4 = be 4 dims :=
    take_append_len _ _ 4 (be_length _ _)
  have h3 : ((be 4 dims ++ (be 4 (serializedSize items) ++ (E ++ R))).drop 4).take 4
      = be 4 (serializedSize items) := by
    rw [drop_append_len _ _ 4 (be_length _ _), take_append_len _ _ 4 (be_length _ _)]
  have h4 : (be 4 dims ++ (be 4 (serializedSize items) ++ (E ++ R))).drop 8 = E ++ R := by
    rw [← List.append_assoc]
    exact drop_append_len _ _ 8 (by simp [be_length])
  rw [if_neg h1, h2, h3, h4, ofBe_be 4 _ hdims, ofBe_be 4 _ hsz]
  have h5 : ¬ ((E ++ R).length < serializedSize items) := by
    rw [List.length_append, hlen]; omega
  rw [if_neg h5, take_append_len _ _ _ hlen, drop_append_len _ _ _ hlen]
  have := decode_encode items hs hb []
  rw [List.append_nil, hE] at this
  rw [this]
  simp only [Option.bind_some]
  rw [← hR, roots_parse roots hr]
  rfl

theorem encodeVal_version_eq (m : Metric) (a b c : Nat) :
    encodeVal m (.version a b c) = encodeVal .euclidean (.version a b c) := by
  simp [encodeVal]

end CodecL
end Arroy
