import ArroyProofs.Subst
/-! The first half of one round of `incremental_index_large_descendants`: the subtree `makeT` builds
from a batch is written with its root remapped onto the bucket id `b`. -/
namespace Arroy
open BuildM Generated IdSet

theorem makeT_ids_ok (cx : TreeCtx) (fuel : Nat) (items : List Nat) (g : IdGen) (normals : List (List Nat))
    (rs : List Bool) (res : MakeRes) (inUse : List Nat) (h : makeT cx fuel items g normals rs = .ok res)
    (hg : GenOK inUse g) :
    res.tree.ids.Nodup ∧ (∀ i ∈ res.tree.ids, i ∉ inUse ∧ i < 4294967296) ∧ GenOK (res.tree.ids ++ inUse) res.gen := by
  have h0 := makeT_ids cx fuel items g normals rs res inUse h hg.1
  refine ⟨h0.1, ?_, ?_⟩
  · intro i hi
    refine ⟨h0.2.1 i hi, ?_⟩
    by_cases hlt : i < 4294967296
    · exact hlt
    · have hN := makeT_ids cx fuel items g normals rs res (i :: inUse) h (hg.big (by omega))
      exact absurd List.mem_cons_self (hN.2.1 i hi)
  · apply GenOK.of_big
    intro N hN
    have hN' := makeT_ids cx fuel items g normals rs res (N :: inUse) h (hg.big hN)
    apply hN'.2.2.mono
    intro i hi
    rcases List.mem_cons.1 hi with rfl | hi
    · exact List.mem_append_right _ List.mem_cons_self
    · rcases List.mem_append.1 hi with hi | hi
      · exact List.mem_append_left _ hi
      · exact List.mem_append_right _ (List.mem_cons_of_mem _ hi)

/-- the tree rooted at `b` after the remapped write-back of `t` (`ids`: the old content of bucket `b`,
    which stays when `t` is a single item and nothing is written) -/
def rootAt (b : Nat) (ids : List Nat) : T → T
  | .leaf _ => .bucket b ids
  | .bucket _ s => .bucket b s
  | .node _ n l r => .node b n l r

theorem rootAt_ref (b : Nat) (ids : List Nat) (t : T) : (rootAt b ids t).ref = NodeId.mkTree b := by
  cases t <;> rfl

theorem rootAt_ids (b : Nat) (ids : List Nat) (t : T) : (rootAt b ids t).ids = b :: t.ids.tail := by
  cases t <;> rfl

theorem rootAt_items (b : Nat) (ids : List Nat) (t : T) (h : ∀ x, t ≠ .leaf x) : (rootAt b ids t).items = t.items := by
  cases t with
  | leaf x => exact absurd rfl (h x)
  | bucket id s => rfl
  | node id n l r => rfl

theorem rootAt_wf (b : Nat) (ids : List Nat) (t : T) (hs : Sorted ids) (ht : WF t) : WF (rootAt b ids t) := by
  cases t with
  | leaf x => exact hs
  | bucket id s => exact ht
  | node id n l r => exact ht

theorem rootAt_routed (cx : TreeCtx) (b : Nat) (ids : List Nat) (t : T) (ht : RoutedT cx t) :
    RoutedT cx (rootAt b ids t) := by
  cases t with
  | leaf x => trivial
  | bucket id s => trivial
  | node id n l r => exact ht

theorem rootAt_buckets (b : Nat) (ids : List Nat) (t : T) (h : ∀ x, t ≠ .leaf x) :
    ∀ p ∈ (rootAt b ids t).buckets, ∃ q ∈ t.buckets, q.2 = p.2 := by
  cases t with
  | leaf x => exact absurd rfl (h x)
  | bucket id s =>
    intro p hp
    simp only [rootAt, T.buckets, List.mem_singleton] at hp
    subst hp
    exact ⟨(id, s), by simp [T.buckets], rfl⟩
  | node id n l r => intro p hp; exact ⟨p, hp, rfl⟩

/-- the remap of `writeBack`: the drawn root id goes to `b` -/
def remapTo (rootId b : Nat) : Nat → Nat := fun id => if id = rootId then b else id

theorem putAllMap_eq_putAll (c : Cfg) (remap : Nat → Nat) (s : Store) (ps : List (Nat × Val)) :
    putAllMap c remap s ps = putAll c s (ps.map (fun p => (remap p.1, p.2))) := by
  simp only [putAllMap, putAll, List.foldl_map]

theorem map_remap_of_not_mem (rootId b : Nat) (ps : List (Nat × Val)) (h : ∀ p ∈ ps, p.1 ≠ rootId) :
    ps.map (fun p => (remapTo rootId b p.1, p.2)) = ps := by
  induction ps with
  | nil => rfl
  | cons p ps ih =>
    simp only [List.map_cons, List.cons.injEq]
    refine ⟨?_, ih (fun q hq => h q (List.mem_cons_of_mem _ hq))⟩
    simp only [remapTo, h p (by simp), ↓reduceIte]

/-- the remapped puts of a freshly made (non-leaf) tree are the cells of the tree re-rooted at `b` -/
theorem remap_cellsPost (b : Nat) (ids : List Nat) (t : T) (hnd : t.ids.Nodup) (h : ∀ x, t ≠ .leaf x) :
    t.cellsPost.map (fun p => (remapTo t.ref.item b p.1, p.2)) = (rootAt b ids t).cellsPost := by
  cases t with
  | leaf x => exact absurd rfl (h x)
  | bucket id s => simp [T.cellsPost, rootAt, remapTo, T.ref]
  | node id n l r =>
    simp only [T.ids, List.nodup_cons, List.mem_append, not_or] at hnd
    have hl : ∀ p ∈ l.cellsPost, p.1 ≠ id := by
      intro p hp e
      have : p.1 ∈ l.idsPost := by rw [← T.cellsPost_ids]; exact List.mem_map_of_mem hp
      exact hnd.1.1 (e ▸ (l.idsPost_perm.mem_iff.1 this))
    have hr : ∀ p ∈ r.cellsPost, p.1 ≠ id := by
      intro p hp e
      have : p.1 ∈ r.idsPost := by rw [← T.cellsPost_ids]; exact List.mem_map_of_mem hp
      exact hnd.1.2 (e ▸ (r.idsPost_perm.mem_iff.1 this))
    simp only [T.cellsPost, rootAt, T.ref, NodeId.item_mkTree, List.map_append, List.map_cons, List.map_nil,
      map_remap_of_not_mem id b _ hl, map_remap_of_not_mem id b _ hr]
    simp [remapTo]

/-- writing all cells of a tree with distinct ids makes the store hold it -/
theorem holds_putAll_cellsPost (c : Cfg) (s : Store) (t : T) (hnd : t.ids.Nodup) :
    Holds c (putAll c s t.cellsPost) t := by
  have ad : Adequate c [] t.cellsPost s t := by
    refine adequate_of_cells hnd (fun p hp => (t.cellsPost_perm.mem_iff).1 hp) ?_
    intro cell hc hnp
    exact absurd (List.mem_map_of_mem ((t.cellsPost_perm.mem_iff).2 hc)) hnp
  have := writeback ad
  rwa [applyStaged_nil] at this

theorem ofList_nil : IdSet.ofList [] = [] := IdSet.ofList_eq_self IdSet.sorted_nil

/-- the store after `writeBack c [] puts remap` -/
theorem writeBack_nil_store (c : Cfg) (puts : List (Nat × Val)) (remap : Nat → Nat) {st st' : BState}
    (h : Build.writeBack c [] puts remap st = .ok ((), st')) :
    st'.store = putAll c st.store (puts.map (fun p => (remap p.1, p.2))) := by
  rw [writeBack_eq c [] puts remap h]
  simp only [ofList_nil, eraseAll, List.foldl_nil, List.contains_nil, Bool.not_false]
  rw [List.filter_eq_self.2 (fun _ _ => rfl), putAllMap_eq_putAll]

/-- first half of a re-split round -/
theorem resplit_root (c : Cfg) (cx : TreeCtx) (fuel : Nat) (batch : List Nat) (g : IdGen) (normals : List (List Nat))
    (rs : List Bool) (r : MakeRes) (inUse : List Nat) (b : Nat) (ids : List Nat) {st st' : BState}
    (hm : makeT cx fuel batch g normals rs = .ok r) (hg : GenOK inUse g) (hb : b ∈ inUse)
    (hget : Store.get st.store (c.treeKey b) = some (.desc ids))
    (hblt : b < 4294967296) (hi : c.index < 65536)
    (h : Build.writeBack c [] r.puts (fun id => if id = r.tree.ref.item then b else id) st = .ok ((), st')) :
    Holds c st'.store (rootAt b ids r.tree) ∧ (rootAt b ids r.tree).ids.Nodup ∧
    (∀ i ∈ (rootAt b ids r.tree).ids, i = b ∨ (i ∉ inUse ∧ i < 4294967296)) ∧
    (∀ k, (∀ i ∈ (rootAt b ids r.tree).ids, k ≠ c.treeKey i) → Store.get st'.store k = Store.get st.store k) ∧
    StoreStep c st.store st'.store ∧
    GenOK ((rootAt b ids r.tree).ids ++ inUse) r.gen := by
  obtain ⟨m1, m2, m3⟩ := makeT_ids_ok cx fuel batch g normals rs r inUse hm hg
  have hputs := makeT_puts cx fuel batch g normals rs r hm
  have hstore := writeBack_nil_store c r.puts _ h
  have hidsmem : ∀ i ∈ (rootAt b ids r.tree).ids, i = b ∨ i ∈ r.tree.ids := by
    intro i hi'
    rw [rootAt_ids] at hi'
    rcases List.mem_cons.1 hi' with h' | h'
    · exact Or.inl h'
    · exact Or.inr (List.mem_of_mem_tail h')
  have hnd : (rootAt b ids r.tree).ids.Nodup := by
    rw [rootAt_ids, List.nodup_cons]
    refine ⟨fun hm' => (m2 b (List.mem_of_mem_tail hm')).1 hb, ?_⟩
    exact (List.tail_sublist _).nodup m1
  have hstep : StoreStep c st.store st'.store := by
    rw [writeBack_eq c [] r.puts _ h]
    dsimp only
    apply StoreStep.putAllMap ((StoreStep.refl _).eraseAll _) _ _ hi
    intro p hp
    have hp' := (List.mem_filter.1 hp).1
    split
    · exact hblt
    · have : p.1 ∈ r.tree.idsPost := by
        rw [← makeT_puts_ids cx fuel batch g normals rs r hm]; exact List.mem_map_of_mem hp'
      exact (m2 p.1 (r.tree.idsPost_perm.mem_iff.1 this)).2
  refine ⟨?_, hnd, ?_, ?_, hstep, ?_⟩
  · by_cases hleaf : ∃ x, r.tree = .leaf x
    · obtain ⟨x, hx⟩ := hleaf
      have hp0 : r.puts = [] := by rw [hputs, hx]; rfl
      rw [hp0] at hstore
      simp only [List.map_nil, putAll, List.foldl_nil] at hstore
      rw [hstore, hx]
      intro cell hc
      simp only [rootAt, T.cells, List.mem_singleton] at hc
      subst hc
      exact hget
    · have hnl : ∀ x, r.tree ≠ .leaf x := fun x hx => hleaf ⟨x, hx⟩
      have := remap_cellsPost b ids r.tree m1 hnl
      rw [hstore, hputs]
      have e : (fun p : Nat × Val => ((if p.1 = r.tree.ref.item then b else p.1), p.2)) =
          (fun p => (remapTo r.tree.ref.item b p.1, p.2)) := rfl
      rw [e, this]
      exact holds_putAll_cellsPost c st.store _ hnd
  · intro i hi'
    rcases hidsmem i hi' with h' | h'
    · exact Or.inl h'
    · exact Or.inr (m2 i h')
  · intro k hk
    rw [hstore]
    apply get_putAll_of_not
    intro p hp
    obtain ⟨q, hq, rfl⟩ := List.mem_map.1 hp
    simp only
    have hq1 : q.1 ∈ r.tree.ids := by
      have : q.1 ∈ r.tree.idsPost := by
        rw [← makeT_puts_ids cx fuel batch g normals rs r hm]; exact List.mem_map_of_mem hq
      exact r.tree.idsPost_perm.mem_iff.1 this
    split
    · exact hk b (by rw [rootAt_ids]; simp)
    · rename_i hne
      apply hk
      rw [rootAt_ids]
      -- a put at an id of the tree other than its root
      cases hrt : r.tree with
      | leaf x => rw [hrt] at hq1; simp [T.ids] at hq1
      | bucket id s =>
        rw [hrt] at hq1 hne
        simp only [T.ids, List.mem_singleton] at hq1
        exact absurd hq1 (by simpa [T.ref] using hne)
      | node id n l r' =>
        rw [hrt] at hq1 hne
        simp only [T.ids, List.mem_cons] at hq1
        rcases hq1 with h' | h'
        · exact absurd h' (by simpa [T.ref] using hne)
        · simp [T.ids, h']
  · apply m3.mono
    intro i hi'
    rcases List.mem_append.1 hi' with h' | h'
    · rcases hidsmem i h' with h'' | h''
      · subst h''; exact List.mem_append_right _ hb
      · exact List.mem_append_left _ h''
    · exact List.mem_append_right _ h'

end Arroy
