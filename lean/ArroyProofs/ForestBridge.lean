import ArroyProofs.ForestDefs
import ArroyProofs.Forest
import ArroyProofs.ForestUnique
import ArroyProofs.ResplitRound
import ArroyProofs.Properties.C06
/-! The bridge between the builder-side forest predicate (`Forest`, `IndexInv`: what C01 proves about
every reachable state) and the reader-side one (`ForestWith`/`ForestOK`, `DescSorted`: what the reader
theorems C02/C03/C04 assume), and `Reader.open` on a built index without marks. -/
namespace Arroy
open Generated IdSet

/-- the `.desc` cells of a tree are its buckets -/
theorem T.desc_mem_cells_iff (t : T) (id : Nat) (ids : List Nat) :
    (id, Val.desc ids) ∈ t.cells ↔ (id, ids) ∈ t.buckets := by
  induction t with
  | leaf i => simp [T.cells, T.buckets]
  | bucket b s => simp [T.cells, T.buckets]
  | node b n l r ihl ihr => simp [T.cells, T.buckets, ihl, ihr]

/-- whatever the store holds under a node id of a held tree is that tree's cell -/
theorem Holds.cell_of_get {c : Cfg} {s : Store} {t : T} (h : Holds c s t) {id : Nat} (hid : id ∈ t.ids)
    {v : Val} (hg : Store.get s (c.treeKey id) = some v) : (id, v) ∈ t.cells := by
  rw [← cells_ids] at hid
  obtain ⟨cell, hc, rfl⟩ := List.mem_map.1 hid
  have := h cell hc
  rw [hg] at this
  cases this
  exact hc

namespace Forest
variable {c : Cfg} {s : Store} {roots items : List Nat} {ts : List T}

/-- every `.desc` stored under a tree key of the index is a bucket of one of the trees -/
theorem desc_is_bucket (f : Forest c s roots items ts) {id : Nat} {ids : List Nat}
    (hg : Store.get s (c.treeKey id) = some (.desc ids)) : ∃ t ∈ ts, (id, ids) ∈ t.buckets := by
  have hm : id ∈ ts.flatMap T.ids := (f.cover id).1 (by rw [hg]; rfl)
  obtain ⟨t, ht, hid⟩ := List.mem_flatMap.1 hm
  exact ⟨t, ht, (T.desc_mem_cells_iff t id ids).1 ((f.holds t ht).cell_of_get hid hg)⟩

/-- **bridge, `DescSorted`**: in a forest of well-formed trees that covers the tree keys, every stored
    bucket is a strictly increasing id list -/
theorem descSorted (f : Forest c s roots items ts) : DescSorted c s := by
  intro id ids hg
  obtain ⟨t, ht, hb⟩ := f.desc_is_bucket hg
  exact wf_bucket (f.wf t ht) hb

/-- **bridge, `ForestWith`**: a builder-side forest whose item list is sorted, stored as leaves, and which
    has a root when there is an item, is a reader-side forest for the reader state `⟨roots, dims, items⟩` -/
theorem toForestWith (f : Forest c s roots items ts) (dims : Nat) (hsorted : IdSet.Sorted items)
    (hstored : ∀ x ∈ items, ∃ h v, Store.get s (c.itemKey x) = some (.leaf h v))
    (hne : items ≠ [] → roots ≠ []) : ForestWith c s ⟨roots, dims, items⟩ ts where
  refs := f.refs
  holds := f.holds
  reach := f.reach
  items_nodup := f.items_nodup
  ids_nodup := f.ids_nodup
  sorted := hsorted
  stored := hstored
  roots_ne := hne

end Forest

/-- an item key holds a leaf or nothing -/
theorem C05.ItemsAreLeaves.leaf_of_isSome {c : Cfg} {s : Store} (h : C05.ItemsAreLeaves c s) {x : Nat}
    (hx : (Store.get s (c.itemKey x)).isSome = true) : ∃ hd v, Store.get s (c.itemKey x) = some (.leaf hd v) := by
  cases hg : Store.get s (c.itemKey x) with
  | none => rw [hg] at hx; cases hx
  | some val =>
    have hl := h _ (Store.mem_of_get hg) rfl rfl
    obtain ⟨hd, v, rfl⟩ := (C05.isLeaf_iff val).1 hl
    exact ⟨hd, v, rfl⟩

/-- what the index invariant says about an index that has a metadata record -/
theorem IndexInv.of_meta {c : Cfg} {s : Store} (hinv : IndexInv c s) {name : Bytes} {dims : Nat}
    {items roots : List Nat} (hm : Store.get s c.metaKey = some (.metadata name dims items roots)) :
    IdSet.Sorted items ∧ (∃ ts, Forest c s roots items ts) ∧ MarksComplete c s items ∧
    (items ≠ [] → roots ≠ []) := by
  obtain ⟨⟨_, _, _, hb⟩, hr⟩ := hinv
  rcases hb with ⟨hn, _⟩ | ⟨name', dims', items', roots', hm', hs, hf, hmk⟩
  · rw [hn] at hm; cases hm
  · rw [hm'] at hm
    cases hm
    exact ⟨hs, hf, hmk, hr _ _ _ _ hm'⟩

/-- **bridge**: in a state satisfying the index invariant, with a metadata record and no updated mark,
    any forest for the recorded roots and items is a reader-side forest, and the buckets are sorted -/
theorem forestWith_of_inv {c : Cfg} {s : Store} (hinv : IndexInv c s) {name : Bytes} {dims : Nat}
    {items roots : List Nat} {ts : List T}
    (hm : Store.get s c.metaKey = some (.metadata name dims items roots))
    (hnm : ∀ id, Store.get s (c.updatedKey id) = none)
    (f : Forest c s roots items ts) : ForestWith c s ⟨roots, dims, items⟩ ts ∧ DescSorted c s := by
  obtain ⟨hs, _, hmk, hne⟩ := hinv.of_meta hm
  refine ⟨f.toForestWith dims hs ?_ hne, f.descSorted⟩
  intro x hx
  apply hinv.1.2.2.1.leaf_of_isSome
  exact (hmk x (by rw [hnm x]; rfl)).1 hx

/-- the same without naming the trees -/
theorem forestOK_of_inv {c : Cfg} {s : Store} (hinv : IndexInv c s) {name : Bytes} {dims : Nat}
    {items roots : List Nat}
    (hm : Store.get s c.metaKey = some (.metadata name dims items roots))
    (hnm : ∀ id, Store.get s (c.updatedKey id) = none) :
    ForestOK c s ⟨roots, dims, items⟩ ∧ DescSorted c s := by
  obtain ⟨_, ⟨ts, f⟩, _, _⟩ := hinv.of_meta hm
  exact ⟨⟨ts, (forestWith_of_inv hinv hm hnm f).1⟩, (forestWith_of_inv hinv hm hnm f).2⟩

/-- the trees of the reader-side forest are the ones the executable checker reads (`Check.trees`) -/
theorem forestWith_trees_of_inv {c : Cfg} {s : Store} (hinv : IndexInv c s) {name : Bytes} {dims : Nat}
    {items roots : List Nat}
    (hm : Store.get s c.metaKey = some (.metadata name dims items roots))
    (hnm : ∀ id, Store.get s (c.updatedKey id) = none) :
    ForestWith c s ⟨roots, dims, items⟩ (Check.trees c s) := by
  obtain ⟨_, ⟨ts, f⟩, _, _⟩ := hinv.of_meta hm
  rw [Check.trees_of_forest f (by simp [Transp.rootsOf, hm])]
  exact (forestWith_of_inv hinv hm hnm f).1

/-- the items recorded in the metadata of a mark-free state are exactly the stored item ids -/
theorem items_eq_keysOf_of_inv {c : Cfg} {s : Store} (hinv : IndexInv c s) (hi : c.index < 65536)
    {name : Bytes} {dims : Nat} {items roots : List Nat}
    (hm : Store.get s c.metaKey = some (.metadata name dims items roots))
    (hnm : ∀ id, Store.get s (c.updatedKey id) = none) :
    s.keysOf c.index modeItem = items := by
  obtain ⟨hs, _, hmk, _⟩ := hinv.of_meta hm
  apply IdSet.sorted_ext (Store.keysOf_sorted hinv.1.1 hinv.1.2.1 _ _ hi (by decide)) hs
  intro x
  rw [Store.mem_keysOf_iff hinv.1.2.1 _ _ _ hi (by decide)]
  exact (hmk x (by rw [hnm x]; rfl)).symm

/-- `Reader::open` succeeds on a built index of the right metric without marks -/
theorem open_of_inv {c : Cfg} {s : Store} (hinv : IndexInv c s) (hi : c.index < 65536) {dims : Nat}
    {items roots : List Nat}
    (hm : Store.get s c.metaKey = some (.metadata c.metric.nameBytes dims items roots))
    (hnm : ∀ id, Store.get s (c.updatedKey id) = none) :
    Reader.open c s = .ok ⟨roots, dims, items⟩ := by
  apply (((C06.C06_open_char c s hinv.1.2.1 hi).2 _ dims items roots hm).2 rfl).2.1
  rintro ⟨id, hid⟩
  rw [hnm id] at hid
  cases hid

end Arroy
