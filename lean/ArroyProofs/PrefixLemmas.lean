import ArroyProofs.KeyLemmas
import ArroyProofs.Properties.C16
/-! Prefixes and the tree range of one index: which keys a prefix scan / `delete_range` visits.
Every lemma comes in two forms: for **all** keys (in terms of the fields modulo their width, since
the encoders truncate) and for well-formed keys. -/
namespace Arroy
open Generated

theorem be_mod (w n : Nat) : be w (n % 256^w) = be w n := by
  cases w with
  | zero => rfl
  | succ w =>
    have hpos : 0 < 256^w := Nat.pow_pos (by decide)
    simp only [be]
    have e1 : n % 256^(w+1) / 256^w % 256 = n / 256^w % 256 := by
      rw [Nat.pow_succ, Nat.mod_mul_right_div_self, Nat.mod_mod]
    have e2 : n % 256^(w+1) % 256^w = n % 256^w := by
      rw [Nat.pow_succ]; exact Nat.mod_mul_right_mod n (256^w) 256
    rw [e1, e2]

theorem be_eq_iff (w a b : Nat) : be w a = be w b ↔ a % 256^w = b % 256^w := by
  have hpos : 0 < 256^w := Nat.pow_pos (by decide)
  constructor
  · intro h
    rw [← be_mod w a, ← be_mod w b] at h
    exact be_inj w _ _ (Nat.mod_lt _ hpos) (Nat.mod_lt _ hpos) h
  · intro h
    rw [← be_mod w a, ← be_mod w b, h]

/-- the key as the encoder sees it: every field truncated to its width -/
def Key.norm (k : Key) : Key := ⟨k.index % 256^2, k.mode % 256^1, k.item % 256^4⟩

theorem Key.norm_wf (k : Key) : k.norm.wf :=
  ⟨Nat.mod_lt _ (by decide), Nat.mod_lt _ (by decide), Nat.mod_lt _ (by decide)⟩

theorem Key.norm_of_wf {k : Key} (h : k.wf) : k.norm = k := by
  obtain ⟨h1, h2, h3⟩ := h
  cases k
  simp only [Key.norm] at *
  rw [Nat.mod_eq_of_lt h1, Nat.mod_eq_of_lt h2, Nat.mod_eq_of_lt h3]

theorem encodeKey_norm (k : Key) : encodeKey k.norm = encodeKey k := by
  rw [C16.encodeKey_eq, C16.encodeKey_eq]
  simp only [Key.norm, be_mod]

theorem Frame.keyLt_iff (a b : Key) : a.lt b = true ↔
    (a.index < b.index ∨ (a.index = b.index ∧ (a.mode < b.mode ∨ (a.mode = b.mode ∧ a.item < b.item)))) := by
  simp [Key.lt]

theorem isPrefixOf_append_of_length (p a rest : Bytes) (h : p.length = a.length) :
    isPrefixOf p (a ++ rest) = true ↔ p = a := by
  unfold isPrefixOf
  rw [List.isPrefixOf_iff_prefix, List.prefix_iff_eq_take, h, List.take_left']
  rfl

/-- index prefix, **all** keys: the scan visits exactly the keys whose index has the same low 16 bits -/
theorem isPrefixOf_index_all (i : Nat) (k : Key) :
    isPrefixOf (encodePrefix i none) (encodeKey k) = true ↔ k.index % 65536 = i % 65536 := by
  rw [C16.encodeKey_eq]
  simp only [encodePrefix, List.append_nil]
  rw [isPrefixOf_append_of_length _ _ _ (by simp [be_length]), be_eq_iff]
  constructor <;> intro h <;> simpa using h.symm

/-- index + kind prefix, **all** keys -/
theorem isPrefixOf_kind_all (i m : Nat) (k : Key) :
    isPrefixOf (encodePrefix i (some m)) (encodeKey k) = true ↔
      k.index % 65536 = i % 65536 ∧ k.mode % 256 = m % 256 := by
  rw [C16.encodeKey_eq]
  simp only [encodePrefix]
  rw [← List.append_assoc, isPrefixOf_append_of_length _ _ _ (by simp [be_length])]
  constructor
  · intro h
    obtain ⟨h1, h2⟩ := List.append_inj h (by simp [be_length])
    rw [be_eq_iff] at h1 h2
    exact ⟨by simpa using h1.symm, by simpa using h2.symm⟩
  · rintro ⟨h1, h2⟩
    have e1 : be 2 i = be 2 k.index := (be_eq_iff 2 _ _).2 (by simpa using h1.symm)
    have e2 : be 1 m = be 1 k.mode := (be_eq_iff 1 _ _).2 (by simpa using h2.symm)
    rw [e1, e2]

/-- index prefix, well-formed keys -/
theorem isPrefixOf_index (i : Nat) (k : Key) (hk : k.wf) (hi : i < 65536) :
    isPrefixOf (encodePrefix i none) (encodeKey k) = true ↔ k.index = i := by
  rw [isPrefixOf_index_all, Nat.mod_eq_of_lt hk.1, Nat.mod_eq_of_lt hi]

/-- index + kind prefix, well-formed keys -/
theorem isPrefixOf_kind (i m : Nat) (k : Key) (hk : k.wf) (hi : i < 65536) (hm : m < 256) :
    isPrefixOf (encodePrefix i (some m)) (encodeKey k) = true ↔ k.index = i ∧ k.mode = m := by
  rw [isPrefixOf_kind_all, Nat.mod_eq_of_lt hk.1, Nat.mod_eq_of_lt hi, Nat.mod_eq_of_lt hm]
  have := hk.2.1
  rw [Nat.mod_eq_of_lt (by simpa using this)]

/-- the range `Key::tree(i, 0) ..= Key::tree(i, u32::MAX)` of the single-bucket shortcut:
    a well-formed key is kept by `delete_range` iff it is not a tree key of index `i` -/
theorem treeRange_keeps (i : Nat) (k : Key) (hk : k.wf) (hi : i < 65536) :
    (lexLt (encodeKey k) (encodeKey (Key.mkTree i 0)) ||
      lexLt (encodeKey (Key.mkTree i 4294967295)) (encodeKey k)) = true ↔
    ¬ (k.index = i ∧ k.mode = modeTree) := by
  have wlo : (Key.mkTree i 0).wf := ⟨hi, by simp [Key.mkTree, modeTree], by simp [Key.mkTree]⟩
  have whi : (Key.mkTree i 4294967295).wf := ⟨hi, by simp [Key.mkTree, modeTree], by simp [Key.mkTree]⟩
  rw [C16.C16_key_order _ _ hk wlo, C16.C16_key_order _ _ whi hk]
  obtain ⟨h1, h2, h3⟩ := hk
  have h3' : k.item < 4294967296 := h3
  rw [Bool.or_eq_true, Frame.keyLt_iff, Frame.keyLt_iff]
  simp only [Key.mkTree, modeTree]
  omega

/-- the same for **all** keys (fields modulo their width) -/
theorem treeRange_keeps_all (i : Nat) (k : Key) (hi : i < 65536) :
    (lexLt (encodeKey k) (encodeKey (Key.mkTree i 0)) ||
      lexLt (encodeKey (Key.mkTree i 4294967295)) (encodeKey k)) = true ↔
    ¬ (k.index % 65536 = i ∧ k.mode % 256 = modeTree) := by
  rw [← encodeKey_norm k, treeRange_keeps i k.norm k.norm_wf hi]
  rfl

end Arroy
