import ArroyProofs.Nns
import ArroyProofs.TreeView
/-! Helper lemmas for C15 over histories: the roots an opened reader holds are those of the metadata; the
traversal loop of `nns_by_leaf` collects at least `min budget (everything reachable)` candidates; hence an
unfiltered query with `count ≥ 1` and a budget ≥ 1 on a valid forest over a non-empty index has a non-empty
answer; the budget is ≥ 1 unless `search_k` or the oversampling is set to 0. -/
namespace Arroy
open Generated Transp Reader

namespace Reader

/-- the roots a successfully opened reader holds are the roots listed in the metadata -/
theorem open_roots {c : Cfg} {s : Store} {rd : ReaderState} (h : Reader.open c s = .ok rd) :
    rd.roots = rootsOf c s := by
  unfold Reader.open at h
  unfold rootsOf
  split at h
  · rename_i name dims items roots hm
    rw [hm]
    split at h
    · cases h
    · split at h
      · cases h
      · cases h; rfl
  · cases h
  · cases h

/-- the traversal loop returns at least `min budget (what was collected + what the pending subtrees contribute)`
    candidates: it only stops on a met budget or an empty queue -/
theorem traverse_length_ge (c : Cfg) (s : Store) (qv : List Nat) (q : QueryOpts) (searchK : Nat) :
    ∀ (fuel : Nat) (tq : List (Nat × T)) (nns : List Nat),
    (∀ p ∈ tq, Holds c s p.2) →
    (∀ p ∈ tq, ∀ x ∈ p.2.items, ∃ h v, s.get (c.itemKey x) = some (.leaf h v)) →
    ∀ out, traverse c s qv q searchK fuel (qOf tq) nns = .ok out →
      min searchK (nns.length + (tq.map (fun p => (p.2.collect q).length)).sum) ≤ out.length := by
  intro fuel
  induction fuel with
  | zero => intro tq nns _ _ out h; simp [traverse] at h
  | succ n ih =>
    intro tq nns hh hl out h
    rw [traverse] at h
    by_cases hstop : nns.length ≥ searchK
    · simp only [hstop, if_true] at h
      cases h
      omega
    · simp only [hstop, if_false] at h
      rcases popMax_map (fun p : Nat × T => (p.1, p.2.ref)) tq with ⟨rfl, hp⟩ | ⟨⟨d, t⟩, tq', hp, hperm⟩
      · simp only [qOf, List.map_nil, popMax] at h
        cases h
        simp only [List.map_nil, List.sum_nil, Nat.add_zero]
        exact Nat.min_le_right _ _
      · simp only [qOf, hp] at h
        have hmem : ∀ p, p ∈ tq ↔ p ∈ (d, t) :: tq' := fun p => hperm.mem_iff
        have hcl : (tq.map (fun p => (p.2.collect q).length)).sum =
            (t.collect q).length + (tq'.map (fun p => (p.2.collect q).length)).sum := by
          rw [(hperm.map _).sum_nat]; rfl
        have hh' : ∀ p ∈ tq', Holds c s p.2 := fun p hp' => hh p ((hmem p).2 (List.mem_cons_of_mem _ hp'))
        have hl' : ∀ p ∈ tq', ∀ x ∈ p.2.items, ∃ h v, s.get (c.itemKey x) = some (.leaf h v) :=
          fun p hp' => hl p ((hmem p).2 (List.mem_cons_of_mem _ hp'))
        have ht : Holds c s t := hh (d, t) ((hmem _).2 List.mem_cons_self)
        have hlt := hl (d, t) ((hmem _).2 List.mem_cons_self)
        cases t with
        | leaf i =>
          obtain ⟨hd, v, hg⟩ := hlt i (by simp [T.items])
          have hg' : s.get ⟨c.index, (T.leaf i).ref.mode, (T.leaf i).ref.item⟩ = some (.leaf hd v) := hg
          simp only [hg'] at h
          have h' : traverse c s qv q searchK n (tq'.map fun p => (p.1, p.2.ref))
              (if inCandidates q i then nns ++ [i] else nns) = .ok out := h
          have := ih tq' _ hh' hl' out h'
          simp only [T.collect] at hcl
          by_cases hc : inCandidates q i = true
          · simp only [hc, if_true, List.length_append, List.length_cons, List.length_nil] at this hcl
            omega
          · simp only [hc, Bool.false_eq_true, if_false, List.length_nil] at this hcl
            omega
        | bucket id ids =>
          have hg : s.get ⟨c.index, (T.bucket id ids).ref.mode, (T.bucket id ids).ref.item⟩ = some (.desc ids) :=
            ht.bucket
          simp only [hg] at h
          have h' : traverse c s qv q searchK n (tq'.map fun p => (p.1, p.2.ref)) (nns ++ filt q ids) = .ok out := h
          have := ih tq' _ hh' hl' out h'
          simp only [T.collect] at hcl
          simp only [List.length_append] at this
          omega
        | node id nrm l r =>
          have hg : s.get ⟨c.index, (T.node id nrm l r).ref.mode, (T.node id nrm l r).ref.item⟩ =
              some (.split l.ref r.ref nrm) := ht.root
          simp only [hg] at h
          simp only [T.collect, List.length_append] at hcl
          have hitems : ∀ x, x ∈ (T.node id nrm l r).items ↔ x ∈ l.items ∨ x ∈ r.items := by
            intro x; simp [T.items]
          -- independent of how the reader computes the margin
          revert h
          generalize (if F32.isNaN (if c.metric.isZero nrm then F32.zero else c.metric.margin c.host nrm qv) then F32.zero
            else if c.metric.isZero nrm then F32.zero else c.metric.margin c.host nrm qv) = margin
          intro h
          have := ih ((Metric.pqDistance d margin true, r) :: (Metric.pqDistance d margin false, l) :: tq') nns
            (by
              intro p hp'
              rcases List.mem_cons.1 hp' with rfl | hp'
              · exact ht.right
              rcases List.mem_cons.1 hp' with rfl | hp'
              · exact ht.left
              · exact hh' p hp')
            (by
              intro p hp'
              rcases List.mem_cons.1 hp' with rfl | hp'
              · intro x hx; exact hlt x ((hitems x).2 (Or.inr hx))
              rcases List.mem_cons.1 hp' with rfl | hp'
              · intro x hx; exact hlt x ((hitems x).2 (Or.inl hx))
              · exact hl' p hp')
            out h
          simp only [List.map_cons, List.sum_cons] at this
          omega

/-- on a valid forest over a non-empty index, an unfiltered query with a budget of at least one candidate and
    `count ≥ 1` returns at least one result -/
theorem nnsByLeaf_nonempty {c : Cfg} {s : Store} {rd : ReaderState} (F : ForestOK c s rd) (hne : rd.items ≠ [])
    (qh qv : List Nat) (q : QueryOpts) (hq : q.candidates = none) (hcount : 1 ≤ q.count)
    (hb : 1 ≤ budget c.metric rd.roots.length q) :
    ∃ ans, nnsByLeaf c s rd qh qv q = .ok ans ∧ 1 ≤ ans.length := by
  obtain ⟨ts, F⟩ := F
  obtain ⟨nns, hn, hm⟩ := traverse_total F qv q (budget c.metric rd.roots.length q)
  have hl : ∀ id ∈ IdSet.ofList nns, IsLeaf c s id := fun id hid =>
    F.stored id (hm id ((IdSet.mem_ofListR nns id).1 hid)).1
  refine ⟨_, nnsByLeaf_of_traverse c s rd qh qv q nns hne hn hl, ?_⟩
  -- the traversal collected something
  have hq' : (rd.roots.map fun r => (F32.inf, NodeId.mkTree r)) = qOf (ts.map fun t => (F32.inf, t)) := by
    have : (rd.roots.map fun r => (F32.inf, NodeId.mkTree r)) =
        (rd.roots.map NodeId.mkTree).map (fun n => (F32.inf, n)) := by simp [List.map_map]
    rw [this, ← F.refs]; simp [qOf, List.map_map]
  rw [hq'] at hn
  have hge := traverse_length_ge c s qv q _ _ (ts.map fun t => (F32.inf, t)) []
    (by intro p hp; obtain ⟨t, ht, rfl⟩ := List.mem_map.1 hp; exact F.holds t ht)
    (by
      intro p hp x hx
      obtain ⟨t, ht, rfl⟩ := List.mem_map.1 hp
      exact F.stored x ((F.reach t ht x).1 hx))
    nns hn
  -- the first tree alone contributes every item
  have hts : ts ≠ [] := by
    intro e
    have := congrArg List.length F.refs
    rw [e] at this
    simp only [List.map_nil, List.length_nil, List.length_map] at this
    exact F.roots_ne hne (List.length_eq_zero_iff.1 this.symm)
  obtain ⟨t, ts', rfl⟩ := List.exists_cons_of_ne_nil hts
  have hti : 1 ≤ (t.collect q).length := by
    rw [collect_none q hq]
    cases hi : rd.items with
    | nil => exact absurd hi hne
    | cons x xs =>
      have : x ∈ t.items := (F.reach t List.mem_cons_self x).2 (by rw [hi]; exact List.mem_cons_self)
      exact List.length_pos_of_mem this
  simp only [List.map_cons, List.sum_cons, List.length_nil, Nat.zero_add] at hge
  have hnns : 1 ≤ nns.length := by omega
  -- hence so does the deduplicated candidate list, and the truncated sorted answer
  have hof : 1 ≤ (IdSet.ofList nns).length := by
    cases hnn : nns with
    | nil => rw [hnn] at hnns; simp at hnns
    | cons x xs =>
      exact List.length_pos_of_mem ((IdSet.mem_ofListR (x :: xs) x).2 List.mem_cons_self)
  rw [exactOver_length]
  omega

/-- the budget is at least 1 as soon as there is a tree, `count ≥ 1`, and neither `search_k` nor the
    oversampling is set to 0 (unset, they are `count × trees` and the metric's default, 1 or 3) -/
theorem budget_pos (m : Metric) (nRoots : Nat) (q : QueryOpts) (hr : 1 ≤ nRoots) (hcount : 1 ≤ q.count)
    (hk : q.searchK ≠ some 0) (ho : q.oversampling ≠ some 0) : 1 ≤ budget m nRoots q := by
  have hm : 1 ≤ m.oversampling := by cases m <;> decide
  have hu : 1 ≤ usizeMax := by decide
  have hsat : ∀ a b, 1 ≤ a → 1 ≤ b → 1 ≤ satMul a b := by
    intro a b ha hb
    unfold satMul
    have : 1 ≤ a * b := Nat.mul_le_mul ha hb
    exact Nat.le_min.2 ⟨this, hu⟩
  unfold budget
  apply hsat
  · cases hs : q.searchK with
    | none => exact hsat _ _ hcount hr
    | some k =>
      simp only [Option.getD_some]
      rcases Nat.eq_zero_or_pos k with rfl | hk'
      · exact absurd hs hk
      · exact hk'
  · cases hs : q.oversampling with
    | none => exact hm
    | some k =>
      simp only [Option.getD_some]
      rcases Nat.eq_zero_or_pos k with rfl | hk'
      · exact absurd hs ho
      · exact hk'

end Reader
end Arroy
